#!/bin/sh
# Build the verification environment offline: an overlay venv on top of the
# repository's /venv with the solvers from the local wheelhouse.
set -e
cd "$(dirname "$0")"
if [ ! -x .venv/bin/python ] || ! .venv/bin/python -c "import z3, cvc5, numpy, Cython, compyle, mako" 2>/dev/null; then
  rm -rf .venv
  /venv/bin/python -m venv .venv
  echo "import site; site.addsitedir('/venv/lib/python3.12/site-packages')" > .venv/lib/python3.12/site-packages/_overlay.pth
  PIP_NO_INDEX=1 .venv/bin/pip install -q --no-index --find-links /opt/veriftools/wheels z3-solver cvc5 crosshair-tool sympy jsonschema
fi
.venv/bin/python -c "import z3; print('z3', z3.get_version_string())"
