"""C06 machinery: the lowered (cy2py) ParticleArray of
pysph/base/particle_array.pyx running on a model of the cyarray arrays and of
the few numpy calls it makes, the record-list specification model, the
operation language shared by the symbolic run and the concrete replay, and
the state comparison.

cyarray is a separate package (not part of pysph): its arrays are
environment, modelled after carray.pyx (remove = swap-with-last from the
largest index, c_align_array = gather through a copy, set_data = prefix copy
or ValueError, copy_values/copy_subset with *unchecked* casts: a type
mismatch yields unspecified values).  unit `carray model conformance` runs
the model and the real cyarray side by side on concrete operation
sequences."""
import os
import itertools
from fractions import Fraction

import z3

from vf import common, cy2py, symx
from vf.symx import is_sym, SInt, SReal, SBool

Local, Remote, Ghost = 0, 1, 2
UINT_MAX = 4294967295

INT_TYPES = ("int", "long", "unsigned int")


class _Junk(object):
    """an unspecified value in a concrete run"""

    def __repr__(self):
        return "JUNK"


JUNK = _Junk()
_junk_ids = itertools.count()


def junk(ctype):
    try:
        symx.ctx()
    except Exception:
        return JUNK
    if symx._CTX is None:
        return JUNK
    n = next(_junk_ids)
    if ctype in INT_TYPES:
        return symx.integer("junk!%d" % n)
    return symx.real("junk!%d" % n)


def conv(ctype, v):
    """C conversion on a store into a typed array"""
    if v is JUNK:
        return v
    if ctype in INT_TYPES:
        if isinstance(v, SReal):
            return cy2py.c_int(v)
        if isinstance(v, SBool):
            return v._num()
        if isinstance(v, float):
            return int(v)
    return v


# ---------------------------------------------------------------------------
# numpy stand-ins

def _dtype_of(seq):
    for v in seq:
        if isinstance(v, (SReal, float, Fraction)):
            return "double"
    for v in seq:
        if isinstance(v, (SInt, int)):
            return "long"
    return "double"


class NpList(list):
    """1-d ndarray value (a copy, not a view)"""

    def __init__(self, seq=(), dtype=None):
        list.__init__(self, seq)
        self.dtype = dtype or _dtype_of(self)

    @property
    def size(self):
        return len(self)

    def __getitem__(self, k):
        r = list.__getitem__(self, k)
        if isinstance(k, slice):
            return NpList(r, self.dtype)
        return r

    def __eq__(self, o):
        return NpList([v == o for v in self], "bool")

    def __ne__(self, o):
        return NpList([v != o for v in self], "bool")
    __hash__ = None

    def __mul__(self, o):
        if isinstance(o, (list, NpView)):
            o = list(o)
            if len(o) == 1:
                return NpList([v * o[0] for v in self])
            if len(o) != len(self):
                raise ValueError("operands could not be broadcast together")
            return NpList([a * b for a, b in zip(self, o)])
        return NpList([v * o for v in self])
    __rmul__ = __mul__

    def astype(self, t):
        return NpList(self, t)

    def tolist(self):
        return list(self)


class _Ones(NpList):
    def __mul__(self, o):
        if isinstance(o, (list, NpView)):
            o = list(o)
            if len(o) == 1:
                return NpList([o[0]] * len(self))
            if len(o) != len(self):
                raise ValueError("operands could not be broadcast together")
            return NpList(o)
        return NpList([o] * len(self))
    __rmul__ = __mul__


class NpView(object):
    """the ndarray a carray hands out: a live view of its buffer"""

    def __init__(self, arr):
        self.arr = arr

    @property
    def dtype(self):
        return self.arr.ctype

    @property
    def size(self):
        return len(self.arr.data)

    def __len__(self):
        return len(self.arr.data)

    def __iter__(self):
        return iter(list(self.arr.data))

    def __getitem__(self, k):
        if isinstance(k, slice):
            return NpList(self.arr.data[k], self.arr.ctype)
        return self.arr.data[k]

    def __setitem__(self, k, v):
        d = self.arr.data
        ct = self.arr.ctype
        if not isinstance(k, slice):
            d[k] = conv(ct, v)
            return
        idx = range(*k.indices(len(d)))
        if isinstance(v, (list, tuple, NpView)):
            v = list(v)
            if len(v) == 1 and len(idx) != 1:
                v = v * len(idx)
            if len(v) != len(idx):
                raise ValueError("could not broadcast input array from shape "
                                 "(%d,) into shape (%d,)" % (len(v), len(idx)))
            for i, x in zip(idx, v):
                d[i] = conv(ct, x)
        else:
            for i in idx:
                d[i] = conv(ct, v)

    def __eq__(self, o):
        return NpList([v == o for v in self.arr.data], "bool")
    __hash__ = None

    def tolist(self):
        return list(self.arr.data)


class NP(object):
    """the numpy calls particle_array.pyx makes"""
    int32 = "int"
    int64 = "long"
    uint32 = "unsigned int"
    float32 = "float"
    double = "double"
    float64 = "double"
    ndarray = (NpList, NpView)

    @staticmethod
    def ravel(x):
        if isinstance(x, BaseArray):
            return NpList(x.data, x.ctype)
        if isinstance(x, NpView):
            return NpList(x.arr.data, x.arr.ctype)
        if isinstance(x, NpList):
            return NpList(x, x.dtype)
        if isinstance(x, (list, tuple)):
            flat = []
            for v in x:
                if isinstance(v, (list, tuple)):
                    flat.extend(v)
                else:
                    flat.append(v)
            return NpList(flat)
        return NpList([x])

    @staticmethod
    def asarray(x, dtype=None):
        r = NP.ravel(x)
        if dtype is not None:
            r = NpList([conv(dtype, v) for v in r], dtype)
        return r
    array = asarray

    @staticmethod
    def ones(n):
        return _Ones([1.0] * int(n), "double")

    @staticmethod
    def sort(x):
        return NpList(sorted(int(v) for v in x), "long")

    @staticmethod
    def sum(x):
        n = 0
        for v in x:
            if isinstance(v, SBool):
                n += 1 if bool(v) else 0      # forks the path
            else:
                n += v
        return n


# ---------------------------------------------------------------------------
# cyarray model

class BaseArray(object):
    ctype = None

    def __init__(self, n=0):
        self.data = [junk(self.ctype) for _ in range(int(n))]
        self.minimum = 0
        self.maximum = 0

    @property
    def length(self):
        return len(self.data)

    def __len__(self):
        return len(self.data)

    def __iter__(self):
        return iter(list(self.data))

    def __getitem__(self, i):
        return self.data[i]

    def __setitem__(self, i, v):
        self.data[i] = conv(self.ctype, v)

    def get(self, i):
        return self.data[i]

    def set(self, i, v):
        self.data[i] = conv(self.ctype, v)

    def get_c_type(self):
        return self.ctype

    def get_data_ptr(self):
        return self.data

    def get_npy_array(self):
        return NpView(self)

    def reserve(self, size):
        pass

    def squeeze(self):
        pass

    def reset(self):
        del self.data[:]

    def resize(self, size):
        size = int(size)
        if size < 0:
            raise ValueError("negative size")
        if size < len(self.data):
            del self.data[size:]
        else:
            self.data.extend(junk(self.ctype)
                             for _ in range(size - len(self.data)))

    def append(self, v):
        self.data.append(conv(self.ctype, v))

    def set_data(self, nparr):
        if isinstance(nparr, NpView) and nparr.arr is self:
            return
        v = list(nparr)
        if len(v) <= len(self.data):
            for i, x in enumerate(v):
                self.data[i] = conv(self.ctype, x)
        else:
            raise ValueError("array size mismatch")

    def extend(self, in_array):
        for v in list(in_array):
            self.append(v)

    def remove(self, index_list, input_sorted=0, stride=1):
        idx = [int(i) for i in index_list]
        inlength = len(idx)
        if inlength > len(self.data):
            return
        if input_sorted != 1:
            idx = sorted(idx)
        d = self.data
        if stride == 1:
            for i in range(inlength):
                k = idx[inlength - (i + 1)]
                if k < len(d):
                    d[k] = d[len(d) - 1]
                    del d[len(d) - 1:]
        else:
            for i in range(inlength):
                k = idx[inlength - (i + 1)] * stride
                if k < len(d):
                    for j in range(stride):
                        d[k + j] = d[len(d) - stride + j]
                    del d[len(d) - stride:]

    def c_align_array(self, new_indices, stride=1):
        temp = list(self.data)
        n = len(self.data)
        if stride == 1:
            for i in range(n):
                j = int(new_indices.data[i])
                if i != j:
                    self.data[i] = temp[j]
        else:
            for i in range(n // stride):
                j = int(new_indices.data[i])
                if i != j:
                    for s in range(stride):
                        self.data[i * stride + s] = temp[j * stride + s]

    def align_array(self, new_indices, stride=1):
        if len(self.data) // stride != new_indices.length:
            raise ValueError("Unequal array lengths")
        self.c_align_array(new_indices, stride)

    def copy_values(self, indices, dest, stride=1, start=0):
        same = type(dest) is type(self)     # <T>dest is an unchecked cast
        for i in range(indices.length):
            for j in range(stride):
                v = self.data[int(indices.data[i]) * stride + j]
                dest.data[start + i * stride + j] = \
                    v if same else junk(dest.ctype)

    def copy_subset(self, source, start_index=-1, end_index=-1, stride=1):
        same = type(source) is type(self)
        s_length = len(source.data)
        d_length = len(self.data)
        if end_index < 0:
            if start_index < 0:
                if s_length != d_length:
                    raise ValueError(
                        "Source length should be same as dest length")
                si, ei = 0, d_length
            else:
                si, ei = start_index, d_length
                if start_index > d_length - 1:
                    raise ValueError("start_index beyond array length")
                if ei - si > s_length:
                    raise ValueError("Not enough values in source")
        else:
            if start_index < 0:
                raise ValueError("start_index : %d, end_index : %d" %
                                 (start_index, end_index))
            if start_index > d_length - 1 or end_index > d_length or \
                    start_index > end_index:
                raise ValueError("start_index : %d, end_index : %d" %
                                 (start_index, end_index))
            si, ei = start_index, end_index
        j = 0
        for i in range(si, ei):
            for k in range(stride):
                # no bounds checks in C: an index past either buffer is an
                # out-of-bounds access, reported as IndexError by the model
                v = source.data[j * stride + k]
                if i * stride + k >= len(self.data):
                    raise IndexError("copy_subset writes past the buffer")
                self.data[i * stride + k] = v if same else junk(self.ctype)
            j += 1

    def update_min_max(self):
        pass


class DoubleArray(BaseArray):
    ctype = "double"


class FloatArray(BaseArray):
    ctype = "float"


class IntArray(BaseArray):
    ctype = "int"


class UIntArray(BaseArray):
    ctype = "unsigned int"


class LongArray(BaseArray):
    ctype = "long"


ARRAYS = dict(BaseArray=BaseArray, DoubleArray=DoubleArray,
              FloatArray=FloatArray, IntArray=IntArray, UIntArray=UIntArray,
              LongArray=LongArray)


# ---------------------------------------------------------------------------
# the lowered class

class HKDict(dict):
    """a `cdef dict`: Cython maps .has_key() to `in`"""

    def has_key(self, k):
        return k in self


class _Logger(object):
    def __getattr__(self, n):
        return lambda *a, **k: None


CDEF_ATTRS = ("backend", "properties", "property_arrays", "stride",
              "output_property_arrays", "constants", "default_values",
              "name", "num_real_particles", "lb_props", "gpu", "time")

TYPED = ["BaseArray", "IntArray", "LongArray", "DoubleArray", "UIntArray",
         "FloatArray", "ParticleArray", "str", "list", "dict"]

PYX = os.path.join("pysph", "base", "particle_array.pyx")


def lowered_particle_array(repo=None):
    """(class, Module) - every method of ParticleArray lowered from the
    working tree's particle_array.pyx"""
    repo = repo or common.REPO
    ns = dict(ARRAYS)
    ns.update(dict(
        numpy=NP, np=NP, logger=_Logger(), DeviceHelper=None,
        get_backend=lambda b=None: "cython", to_device=None, Array=type(None),
        get_config=None,
        PyDict_GetItem=lambda d, k: d[k],
        PyDict_Contains=lambda d, k: 1 if k in d else 0,
        Local=Local, Remote=Remote, Ghost=Ghost, UINT_MAX=UINT_MAX,
        _UINT_MAX=UINT_MAX, str=str, list=list, dict=dict))
    M = cy2py.Module(extra=ns)
    M.typed = TYPED
    M.add_file(os.path.join(repo, PYX))
    names = [k for k in M.items if k.startswith("ParticleArray.")]
    import warnings
    with warnings.catch_warnings():
        warnings.simplefilter("ignore", SyntaxWarning)
        base = M.make_class("LoweredParticleArrayBase", names,
                            register=False)
    base_setattr = base.__dict__.get("__setattr__")

    class ParticleArray(base):
        backend = None
        properties = None
        property_arrays = None
        stride = None
        output_property_arrays = None
        constants = None
        default_values = None
        name = None
        num_real_particles = 0
        lb_props = None
        gpu = None
        time = 0.0

        def __setattr__(self, k, v):
            if k in CDEF_ATTRS:
                if k in ("properties", "stride", "constants",
                         "default_values") and type(v) is dict:
                    v = HKDict(v)
                object.__setattr__(self, k, v)
            else:
                base_setattr(self, k, v)

    M.ns["ParticleArray"] = ParticleArray
    for n in ("is_local", "is_remote", "is_ghost"):
        M.load(n)
    return ParticleArray, M


# ---------------------------------------------------------------------------
# record-list specification

BUILTIN = (("tag", "int", 1, Local), ("pid", "int", 1, 0),
           ("gid", "unsigned int", 1, UINT_MAX))


class Rec(object):
    """the straightforward model: an ordered list of records"""

    def __init__(self, name=""):
        self.name = name
        self.props = {}            # name -> [ctype, stride, default]
        self.recs = []             # list of {prop: tuple(values)}
        self.constants = {}
        self.out = []
        for n, t, s, d in BUILTIN:
            self.props[n] = [t, s, d]

    def n(self):
        return len(self.recs)

    def default_rec(self, names=None):
        return dict((p, (self.props[p][2],) * self.props[p][1])
                    for p in (names or self.props))

    def clone_empty(self, props=None):
        r = Rec(self.name)
        for p in (self.props if props is None else props):
            r.props[p] = list(self.props[p])
        r.constants = dict((k, list(v)) for k, v in self.constants.items())
        r.out = [p for p in self.out if props is None or p in props]
        return r

    def copy(self):
        r = self.clone_empty()
        r.recs = [dict(x) for x in self.recs]
        return r


def chunks(vals, stride):
    vals = list(vals)
    return [tuple(vals[i * stride:(i + 1) * stride])
            for i in range(len(vals) // stride)]
