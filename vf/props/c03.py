"""C03 -- groups run in the documented order over the documented
particles.

For generated group trees the real code generator
(AccelerationEvalCythonHelper.get_code with the real mako template) emits
the Cython module; it is lowered to Python (vf/gen2py.py) and its
compute(t, dt) is executed with event recorders in place of equations,
kernel, NNPS and arrays.  Particle counts, neighbour counts, start/stop
values, condition() and converged() results are solver variables.  The
recorded event trace must equal the trace of a reference interpreter of the
documented semantics on every path."""
import sys
import random
import inspect

import z3

from vf import common, gen2py
from vf.symx import (explore, Stats, integer, boolean, real, SInt, SBool,
                     is_sym)

PID = "C03"
PROPS = ["x", "y", "z", "u", "v", "w", "h", "m", "rho", "p", "au", "av",
         "aw", "nstart", "nstop"]
HOOKS = ("initialize", "initialize_pair", "loop_all", "loop", "post_loop")


class Oracle(object):
    """one symbolic value per key, shared by both interpreters"""

    def __init__(self, c):
        self.c = c
        self.vals = {}

    def int(self, key, lo, hi):
        if key not in self.vals:
            v = integer("o_" + "_".join(str(k) for k in key))
            self.c.assume_unchecked(z3.And(v.t >= lo, v.t <= hi))
            self.vals[key] = v
        return self.c.concretize(self.vals[key].t, list(range(lo, hi + 1)))

    def bool(self, key):
        if key not in self.vals:
            self.vals[key] = boolean("o_" + "_".join(str(k) for k in key))
        return bool(self.vals[key])


class Counter(dict):
    def next(self, key):
        self[key] = self.get(key, 0) + 1
        return self[key]


class Tagged(object):
    """array buffer identified by (array, property)"""

    def __init__(self, tag, oracle):
        self.tag = tag
        self.oracle = oracle

    @property
    def data(self):
        return self

    def __getitem__(self, i):
        # start/stop index properties are solver variables; any other data
        # read by the precomputed-symbol code gets a harmless value
        if self.tag[1] in ("nstart", "nstop"):
            return self.oracle.int(("first", ) + self.tag, 0, 2)
        return 1.5

    def __setitem__(self, i, v):
        pass


class Wrapper(object):
    def __init__(self, name, index, oracle):
        self.name, self.index, self.oracle = name, index, oracle
        self.array = "array:" + name

    def __getattr__(self, prop):
        if prop.startswith("__"):
            raise AttributeError(prop)
        t = Tagged((self.name, prop), self.oracle)
        self.__dict__[prop] = t
        return t

    def size(self, real=False):
        nr = self.oracle.int(("nreal", self.name), 0, 2)
        if real:
            return nr
        return nr + self.oracle.int(("nghost", self.name), 0, 1)


class Trace(list):
    def ev(self, *a):
        self.append(tuple(a))


class EqRec(object):
    """stands for the compiled equation object"""

    def __init__(self, eq, trace, oracle, counter):
        self.eq, self.trace, self.oracle, self.counter = eq, trace, oracle, \
            counter

    def __getattr__(self, hook):
        if hook.startswith("__"):
            raise AttributeError(hook)
        eq = self.eq
        if not hasattr(eq, hook):
            raise AttributeError("%s has no %s" % (eq.var_name, hook))

        def call(*args):
            if hook == "converged":
                k = self.counter.next(("conv", eq.var_name))
                r = self.oracle.bool(("conv", eq.var_name, k))
                self.trace.ev("converged", eq.var_name, r)
                return 1.0 if r else -1.0
            if hook in ("py_initialize", "reduce"):
                self.trace.ev(hook, eq.var_name, args[0])
                return None
            names = inspect.getfullargspec(getattr(eq, hook)).args[1:]
            info = []
            for n, a in zip(names, args):
                if n in ("d_idx", "s_idx"):
                    info.append((n, int(a)))
                elif isinstance(a, Tagged):
                    info.append((n, a.tag))
            if len(names) != len(args):
                info.append(("ARITY", len(names), len(args)))
            self.trace.ev(hook, eq.var_name, tuple(info))
        return call


class KernelRec(object):
    def kernel(self, *a):
        return 0.0

    def gradient(self, *a):
        pass

    def dwdq(self, *a):
        return 0.0

    def gradient_h(self, *a):
        return 0.0

    def get_deltap(self):
        return 1.0


class NNPSRec(object):
    def __init__(self, trace, oracle, names):
        self.trace, self.oracle, self.names = trace, oracle, names
        self.ctx = None

    def set_context(self, si, di):
        self.ctx = (self.names[int(si)], self.names[int(di)])
        self.trace.ev("set_context", self.ctx[0], self.ctx[1])

    def get_nearest_neighbors(self, d_idx, nbrs):
        n = self.oracle.int(("nnbr",) + self.ctx, 0, 2)
        nbrs.data = list(range(n))
        self.trace.ev("neighbours", self.ctx[0], self.ctx[1], int(d_idx), n)

    def update_domain(self):
        self.trace.ev("nnps.update_domain")

    def update(self):
        self.trace.ev("nnps.update")


# ---------------------------------------------------------------------------
# reference interpreter of the documented semantics

def reference(groups, arrays, trace, oracle, t, dt):
    counter = Counter()
    widx = dict((a, Wrapper(a, i, oracle)) for i, a in enumerate(arrays))

    def cond_ok(g):
        if g.condition is None:
            return True
        k = counter.next(("cond", g.name))
        r = oracle.bool(("cond", g.name, k))
        trace.ev("condition", g.name, r)
        return r

    def leaf(g):
        if g.pre:
            trace.ev("pre", g.name)
        dests = []
        for e in g.equations:
            if e.dest not in dests:
                dests.append(e.dest)
        for d in dests:
            eqs = [e for e in g.equations if e.dest == d]
            w = widx[d]
            if isinstance(g.start_idx, str):
                start = oracle.int(("first", d, g.start_idx), 0, 2)
            else:
                start = g.start_idx
            if g.stop_idx is None:
                n = w.size(real=g.real)
            elif isinstance(g.stop_idx, str):
                n = oracle.int(("first", d, g.stop_idx), 0, 2)
            else:
                n = g.stop_idx
            rng = range(start, n)

            def call(e, hook, d_idx=None, s_idx=None, src=None):
                names = inspect.getfullargspec(getattr(e, hook)).args[1:]
                info = []
                for nm in names:
                    if nm == "d_idx":
                        info.append((nm, d_idx))
                    elif nm == "s_idx":
                        info.append((nm, s_idx))
                    elif nm.startswith("d_"):
                        info.append((nm, (d, nm[2:])))
                    elif nm.startswith("s_"):
                        info.append((nm, (src, nm[2:])))
                trace.ev(hook, e.var_name, tuple(info))
            for e in eqs:
                if hasattr(e, "py_initialize"):
                    trace.ev("py_initialize", e.var_name, w.array)
            if any(hasattr(e, "initialize") for e in eqs):
                for i in rng:
                    for e in eqs:
                        if hasattr(e, "initialize"):
                            call(e, "initialize", i)
            nos = [e for e in eqs if e.no_source]
            if any(hasattr(e, "loop") for e in nos):
                for i in rng:
                    for e in nos:
                        if hasattr(e, "loop"):
                            call(e, "loop", i)
            srcs = []
            for e in eqs:
                if not e.no_source:
                    for s in e.sources:
                        if s not in srcs:
                            srcs.append(s)
            for s in srcs:
                es = [e for e in eqs if not e.no_source and s in e.sources]
                if any(hasattr(e, "initialize_pair") for e in es):
                    for i in rng:
                        for e in es:
                            if hasattr(e, "initialize_pair"):
                                call(e, "initialize_pair", i, None, s)
                if any(hasattr(e, "loop") or hasattr(e, "loop_all")
                       for e in es):
                    trace.ev("set_context", s, d)
                    for i in rng:
                        nn = oracle.int(("nnbr", s, d), 0, 2)
                        trace.ev("neighbours", s, d, i, nn)
                        for e in es:
                            if hasattr(e, "loop_all"):
                                call(e, "loop_all", i, None, s)
                        if any(hasattr(e, "loop") for e in es):
                            for j in range(nn):
                                for e in es:
                                    if hasattr(e, "loop"):
                                        call(e, "loop", i, j, s)
            if any(hasattr(e, "post_loop") for e in eqs):
                for i in rng:
                    for e in eqs:
                        if hasattr(e, "post_loop"):
                            call(e, "post_loop", i)
            for e in eqs:
                if hasattr(e, "reduce"):
                    trace.ev("reduce", e.var_name, w.array)
        if g.update_nnps:
            trace.ev("nnps.update_domain")
            trace.ev("nnps.update")
        if g.post:
            trace.ev("post", g.name)

    def body(g):
        if g.has_subgroups:
            if g.pre:
                trace.ev("pre", g.name)
            for sg in g.equations:
                if cond_ok(sg):
                    leaf(sg)
            if g.update_nnps:
                trace.ev("nnps.update_domain")
                trace.ev("nnps.update")
            if g.post:
                trace.ev("post", g.name)
        else:
            leaf(g)

    def all_eqs(g):
        if g.has_subgroups:
            return [e for sg in g.equations for e in sg.equations]
        return list(g.equations)

    for g in groups:
        if not all_eqs(g):
            continue
        if not cond_ok(g):
            continue
        if g.iterate:
            it = 1
            while True:
                body(g)
                conv = True
                # every equation's converged() is consulted (no short cut)
                res = []
                if it >= g.min_iterations:
                    for e in all_eqs(g):
                        k = counter.next(("conv", e.var_name))
                        r = oracle.bool(("conv", e.var_name, k))
                        trace.ev("converged", e.var_name, r)
                        res.append(r)
                    conv = all(res)
                    if conv or it == g.max_iterations:
                        break
                it += 1
                if it > 8:
                    raise RuntimeError("reference: runaway iteration")
        else:
            body(g)


# ---------------------------------------------------------------------------
BOUNDARY_BASE = 1000000


def make_tree(seed):
    """a random group tree over arrays a (dest), b"""
    from pysph.sph.equation import Group
    from vf import c03_eqs as E
    rnd = random.Random(seed)
    # seeds from BOUNDARY_BASE on: index ranges are frequent and include the
    # boundary literals start_idx = 0 and stop_idx = 0 (an empty range)
    boundary = seed >= BOUNDARY_BASE
    arrays = ["a", "b"] if rnd.random() < 0.8 else ["a", "b", "c"]

    def eqn():
        C = rnd.choice(E.FAMILY)
        dest = rnd.choice(arrays[:2])
        if C is E.EqNS:
            return C(dest=dest, sources=None)
        k = rnd.choice([1, 1, 2])
        return C(dest=dest, sources=rnd.sample(arrays, min(k, len(arrays))))

    def cb(kind, name):
        return None

    def leaf(depth):
        kw = {}
        if rnd.random() < 0.3:
            kw["real"] = False
        if rnd.random() < 0.2:
            kw["update_nnps"] = True
        r = rnd.random()
        if boundary:
            if r < 0.4:
                kw["start_idx"] = rnd.choice([0, 1, "nstart"])
        elif r < 0.15:
            kw["start_idx"] = rnd.choice([1, "nstart"])
        r = rnd.random()
        if boundary:
            if r < 0.6:
                kw["stop_idx"] = rnd.choice([0, 0, 1, 2, "nstop"])
        elif r < 0.15:
            kw["stop_idx"] = rnd.choice([1, 2, "nstop"])
        if rnd.random() < 0.25:
            kw["pre"] = lambda: None
        if rnd.random() < 0.25:
            kw["post"] = lambda: None
        if rnd.random() < 0.25:
            kw["condition"] = lambda t, dt: True
        if depth == 0 and rnd.random() < 0.3:
            kw["iterate"] = True
            kw["max_iterations"] = rnd.choice([1, 2, 3])
            kw["min_iterations"] = rnd.choice([0, 1, kw["max_iterations"]])
        return Group(equations=[eqn() for _ in range(rnd.choice([1, 2, 3]))],
                     **kw)
    groups = []
    for _ in range(rnd.choice([1, 2, 3])):
        if rnd.random() < 0.3:
            kw = {}
            if rnd.random() < 0.4:
                kw["iterate"] = True
                kw["max_iterations"] = rnd.choice([1, 2])
                kw["min_iterations"] = rnd.choice([0, 1])
            if rnd.random() < 0.3:
                kw["pre"] = lambda: None
            if rnd.random() < 0.3:
                kw["post"] = lambda: None
            if rnd.random() < 0.3:
                kw["condition"] = lambda t, dt: True
            if rnd.random() < 0.2:
                kw["update_nnps"] = True
            groups.append(Group(equations=[leaf(1) for _ in
                                           range(rnd.choice([1, 2]))], **kw))
        else:
            groups.append(leaf(0))
    return arrays, groups


def describe(groups):
    def g1(g):
        d = dict(name=g.name, real=g.real, update_nnps=g.update_nnps,
                 iterate=g.iterate, min=g.min_iterations,
                 max=g.max_iterations, start=g.start_idx, stop=g.stop_idx,
                 pre=bool(g.pre), post=bool(g.post),
                 condition=g.condition is not None)
        if g.has_subgroups:
            d["subgroups"] = [g1(x) for x in g.equations]
        else:
            d["equations"] = ["%s(%s<-%s)" % (type(e).__name__, e.dest,
                                               e.sources)
                              for e in g.equations]
        return d
    return [g1(g) for g in groups]


REPLAY = common.REPLAY_HEADER + '''
# Re-runs the comparison for one program and one concrete choice of the
# sizes / neighbour counts / callback results (the lowered generated code
# against the documented semantics).
from vf.props import c03
sys.exit(common.replay_exit(c03.replay(%(seed)d, %(choices)r)))
'''


def generate(seed):
    """group tree -> (arrays, user groups, a_eval, lowered namespace)"""
    common.use_repo_with_build()
    from pysph.base.utils import get_particle_array
    from pysph.base.kernels import CubicSpline
    from pysph.sph.acceleration_eval import AccelerationEval
    from pysph.sph.acceleration_eval_cython_helper import \
        AccelerationEvalCythonHelper
    arrays, groups = make_tree(seed)
    pas = []
    for a in arrays:
        pa = get_particle_array(name=a, x=[0.0, 1.0])
        for p in PROPS:
            if p not in pa.properties:
                pa.add_property(p)
        pas.append(pa)
    ae = AccelerationEval(pas, groups, CubicSpline(dim=1), backend="cython")
    helper = AccelerationEvalCythonHelper(ae)
    code = helper.get_code()
    ns = gen2py.load(code)
    return arrays, groups, ae, ns, code


def run_generated(ns, ae, arrays, trace, oracle, t, dt):
    counter = Counter()
    A = ns["AccelerationEval"]
    obj = A.__new__(A)
    for i, a in enumerate(arrays):
        setattr(obj, a, Wrapper(a, i, oracle))
    obj.nnps = NNPSRec(trace, oracle, arrays)
    obj.n_threads = 1
    obj.nbrs = [gen2py.CArray()]
    obj.kernel = KernelRec()
    alle = {}
    for e in ae.all_group.equations:
        rec = EqRec(e, trace, oracle, counter)
        setattr(obj, e.var_name, rec)
        alle[e.var_name] = rec
    obj.all_equations = alle

    # user callbacks reached through self.groups[...] (the mega groups)
    class G(object):
        def __init__(self, mg):
            self.mg = mg
            self.data = [G(x) for x in mg.data] if mg.has_subgroups else None

        def pre(self):
            trace.ev("pre", self.mg.name)

        def post(self):
            trace.ev("post", self.mg.name)

        def condition(self, t_, dt_):
            k = counter.next(("cond", self.mg.name))
            r = oracle.bool(("cond", self.mg.name, k))
            trace.ev("condition", self.mg.name, r)
            return r
    obj.groups = [G(mg) for mg in ae.mega_groups]
    obj.compute(t, dt)


def first_diff(a, b):
    for i, (x, y) in enumerate(zip(a, b)):
        if x != y:
            return i, x, y
    if len(a) != len(b):
        i = min(len(a), len(b))
        return i, (a[i] if i < len(a) else None), (b[i] if i < len(b)
                                                   else None)
    return None


def replay(seed, choices):
    """concrete re-run with fixed oracle values; returns a description of
    the disagreement or None"""
    arrays, groups, ae, ns, code = generate(seed)

    class Fixed(object):
        def int(self, key, lo, hi):
            return choices.get("|".join(str(k) for k in key), lo)

        def bool(self, key):
            return choices.get("|".join(str(k) for k in key), True)
    o = Fixed()
    t1, t2 = Trace(), Trace()
    run_generated(ns, ae, arrays, t1, o, 0.0, 0.1)
    reference(groups, arrays, t2, o, 0.0, 0.1)
    d = first_diff(t1, t2)
    print("program:", describe(groups))
    if d:
        print("generated code trace:", t1[max(0, d[0] - 3):d[0] + 3])
        print("documented trace    :", t2[max(0, d[0] - 3):d[0] + 3])
        return "event %d: generated code does %r, documented semantics %r" \
            % d
    return None


def unit_program(seed, max_paths=300):
    stats = Stats()
    out = dict(unit="group tree seed=%d" % seed, obligations=0, discharged=0,
               undecided=[], events=0)
    try:
        arrays, groups, ae, ns, code = generate(seed)
    except Exception as e:
        out.setdefault("harness_errors", []).append(
            "generation/lowering failed: %r" % (e,))
        out["stats"] = stats.as_dict()
        return out
    out["program"] = describe(groups)
    ncex = [0]

    def run(c):
        o = Oracle(c)
        t1, t2 = Trace(), Trace()
        run_generated(ns, ae, arrays, t1, o, 0.0, 0.1)
        reference(groups, arrays, t2, o, 0.0, 0.1)
        return t1, t2, o

    for path in explore(run, stats=stats, max_paths=max_paths):
        if path.exc is not None:
            out.setdefault("harness_errors", []).append(
                "seed %d: %r" % (seed, path.exc))
            break
        t1, t2, o = path.value
        out["obligations"] += 1
        out["events"] += len(t1)
        d = first_diff(t1, t2)
        if d is None:
            out["discharged"] += 1
            continue
        # concrete witness of this path
        if path.ctx.reachable() != "sat":
            out["undecided"].append("path model")
            continue
        m = path.ctx.last_model_solver.model()
        choices = {}
        for key, v in o.vals.items():
            val = m.eval(v.t, True)
            choices["|".join(str(k) for k in key)] = \
                bool(z3.is_true(val)) if z3.is_bool(val) else val.as_long()
        ncex[0] += 1
        p = common.write_replay(PID, "tree_%d_%d" % (seed, ncex[0]),
                                REPLAY % dict(seed=seed, choices=choices))
        common.triage(PID, out, "seed %d: event %d differs: generated %r vs "
                      "documented %r" % ((seed,) + d), p,
                      dict(unit="compute", seed=seed))
        if ncex[0] >= 3:
            break
    out["stats"] = stats.as_dict()
    out["sample"] = dict(seed=seed, program=out.get("program"))
    return out


def main():
    t = common.tier()
    common.use_repo_with_build()
    import pysph.sph.acceleration_eval_cython_helper as H
    import pysph.sph.acceleration_eval as AE
    import pysph.sph.equation as EQ
    rep = common.Report(
        PID, "other",
        "the generated Cython module (real code generator and mako "
        "template) is lowered to Python and its compute() executed with "
        "event recorders; counts, neighbour numbers, start/stop values and "
        "callback results are solver variables; the event trace is compared "
        "with a reference interpreter of the documented semantics on every "
        "path")
    rep.functions = [common.func_ref(f) for f in (
        AE.MegaGroup._make_data, H.AccelerationEvalCythonHelper.
        get_dest_array_setup, H.AccelerationEvalCythonHelper.
        get_parallel_range, H.AccelerationEvalCythonHelper.get_iteration_init,
        H.AccelerationEvalCythonHelper.get_iteration_check,
        EQ.Group.get_converged_condition, EQ.CythonGroup._get_code)] + [
        "pysph/sph/acceleration_eval_cython.mako sha=%s" % common.sha_of(
            common.REPO + "/pysph/sph/acceleration_eval_cython.mako")]
    base = common.seed() * 1000
    n = 64 if t == "quick" else 400
    units = [("vf.props.c03", "unit_program",
              dict(seed=base + i, max_paths=500 if t == "quick" else 2000))
             for i in range(n)]
    nb = 16 if t == "quick" else 100
    units += [("vf.props.c03", "unit_program",
               dict(seed=BOUNDARY_BASE + base + i,
                    max_paths=500 if t == "quick" else 2000))
              for i in range(nb)]
    rep.bounds = dict(programs=n + nb, seeds="%d..%d" % (base, base + n - 1),
                      boundary_seeds="%d..%d (index ranges frequent, with "
                      "the literals start_idx = 0 and stop_idx = 0)" % (
                          BOUNDARY_BASE + base, BOUNDARY_BASE + base + nb - 1),
                      arrays="2-3", real_particles="0..2 per array",
                      ghosts="0..1 per array", neighbours="0..2 per (source, "
                      "destination) pair", start_stop_values="0..2",
                      iterations="max_iterations <= 3",
                      paths_per_program="<= 500 quick / 2000 thorough "
                      "(programs cut by the cap are listed as incomplete)")
    rep.assumptions = [
        "the lowering of generated Cython to Python (vf/gen2py.py) is "
        "trusted; prange is sequential (thread schedules are C05's subject)",
        "equations, kernel, NNPS and particle-array wrappers are recorders",
        "the reference interpreter in this file is the documented semantics "
        "(property statement / docs design/equations.rst)",
        "the number of neighbours is one symbolic value per (source, "
        "destination) pair"]
    rep.outside = ["OpenMP scheduling", "GPU back-ends",
                   "values computed by the equations (C02)"]
    common.run_units(rep, units)
    return rep.finish()


if __name__ == "__main__":
    sys.exit(main())
