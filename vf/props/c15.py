"""C15 -- Riemann solvers are reflection-symmetric; equal states give the
common state; the dispatch function agrees with the individual solvers;
iterative contact solvers (bounded Newton iterations) are admissible.

The real functions of pysph/sph/gas_dynamics/riemann_solver.py are executed
on exact-real proxies; sqrt is a fresh non-negative root, pow an
uninterpreted function."""
import sys
import time
from fractions import Fraction

import z3

from vf import common
from vf.symx import (explore, patched_globals, real, SReal, Stats, to_real,
                     model_value, rv, MATH_TABLE)

PID = "C15"
SOLVERS = ["non_diffusive", "van_leer", "exact", "hllc", "ducowicz", "hlle",
           "roe", "llxf", "hllc_ball", "hll_ball", "hllsy"]
ITERATIVE = ("van_leer", "exact")
PFLOOR = Fraction(1, 10**20)


def _inputs(cov=False, slice_=False):
    if slice_:
        # a slice of the input space on which z3 decides most paths: the
        # right state is (rho, p) = (1, 5/7) and gamma = 7/5, so that its
        # Lagrangian sound speed gamma*p*rho is the square 1; the left state
        # and both velocities stay symbolic (4 real variables)
        G = rv(Fraction(7, 5))
        al, kl = z3.Real("al"), z3.Real("kl")
        return dict(rhol=SReal(al * al), rhor=SReal(rv(1)),
                    pl=SReal(kl * kl / (G * al * al)),
                    pr=SReal(rv(Fraction(5, 7))), ul=real("ul"),
                    ur=real("ur"), gamma=SReal(G),
                    roots=[al, kl, rv(1), kl / (al * al)], pos=[al, kl])
    return _inputs_general(cov)


def _inputs_general(cov=False):
    """cov: change of variables that makes every sqrt argument of the
    solvers a registered square: rho = a^2, gamma*p*rho = k^2 (a bijection
    of the admissible domain rho, p > 0 onto a, k > 0)."""
    g = real("gamma")
    if not cov:
        return dict(rhol=real("rhol"), rhor=real("rhor"), pl=real("pl"),
                    pr=real("pr"), ul=real("ul"), ur=real("ur"), gamma=g,
                    roots=[], pos=[])
    al, ar, kl, kr = (z3.Real(n) for n in ("al", "ar", "kl", "kr"))
    return dict(rhol=SReal(al * al), rhor=SReal(ar * ar),
                pl=SReal(kl * kl / (g.t * al * al)),
                pr=SReal(kr * kr / (g.t * ar * ar)),
                ul=real("ul"), ur=real("ur"), gamma=g,
                roots=[al, ar, kl, kr, kl / (al * al), kr / (ar * ar)],
                pos=[al, ar, kl, kr])


def _assume_admissible(c, v):
    for k in ("rhol", "rhor", "pl", "pr"):
        c.assume_unchecked(v[k].t > 0)
    for t in v["pos"]:
        c.assume_unchecked(t > 0)
    c.root_candidates = list(v["roots"])
    c.assume_unchecked(v["gamma"].t > 1)
    c.assume_unchecked(v["gamma"].t <= 3)


def _call(f, args, niter, tol):
    res = [0.0, 0.0]
    try:
        rc = f(*args, niter, tol, res)
    except (ZeroDivisionError, ValueError) as e:
        return "raise:" + type(e).__name__, res
    return rc, res


REPLAY = common.REPLAY_HEADER + '''
common.use_repo()
import io, contextlib, math
import pysph.sph.gas_dynamics.riemann_solver as R
kind, name, niter, tol = %(kind)r, %(name)r, %(niter)d, %(tol)r
rhol, rhor, pl, pr, ul, ur, gamma = %(vals)r
f = getattr(R, name)
def call(*a):
    res = [0.0, 0.0]
    try:
        with contextlib.redirect_stdout(io.StringIO()):
            rc = f(*a, gamma, niter, tol, res)
    except (ZeroDivisionError, ValueError) as e:
        return "raise:" + type(e).__name__, res
    return rc, res
bad = None
def differs(a, b, scale):
    return not (abs(a - b) <= 1e-9 * scale)
if kind == "equal_states_tiny_p":
    kind = "equal_states"
if kind == "symmetry":
    (r1, a), (r2, b) = call(rhol, rhor, pl, pr, ul, ur), call(rhor, rhol, pr, pl, -ur, -ul)
    print("forward ", r1, a); print("mirrored", r2, b)
    us = abs(ul) + abs(ur) + abs(a[1]) + abs(b[1]) + 1e-300
    if r1 != r2:
        bad = "return codes differ: %%r vs %%r" %% (r1, r2)
    elif r1 == 0 and (differs(a[0], b[0], abs(a[0]) + abs(b[0]) + 1e-300) or differs(a[1], -b[1], us)):
        bad = "p*, u* = %%r mirrored %%r" %% (a, b)
elif kind == "equal_states":
    r1, a = call(rhol, rhol, pl, pl, ul, ul)
    print("equal states", r1, a)
    if r1 == 0 and (differs(a[0], pl, pl) or differs(a[1], ul, abs(ul) + math.sqrt(gamma*pl/rhol))):
        bad = "equal states (rho=%%r,p=%%r,u=%%r) gave %%r" %% (rhol, pl, ul, a)
elif kind == "dispatch":
    idx = %(idx)d
    r1, a = call(rhol, rhor, pl, pr, ul, ur)
    res = [0.0, 0.0]
    with contextlib.redirect_stdout(io.StringIO()):
        r2 = R.riemann_solve(idx, rhol, rhor, pl, pr, ul, ur, gamma, niter, tol, res)
    print(r1, a, r2, res)
    if r1 != r2 or (r1 == 0 and (a[0] != res[0] or a[1] != res[1])):
        bad = "riemann_solve(%%d) != %%s" %% (idx, name)
elif kind == "positive":
    r1, a = call(rhol, rhor, pl, pr, ul, ur)
    print(r1, a)
    if r1 == 0 and not (a[0] > 0 and math.isfinite(a[0]) and math.isfinite(a[1])):
        bad = "success with p* = %%r" %% (a[0],)
elif kind == "galilean":
    c = %(shift)r
    (r1, a), (r2, b) = call(rhol, rhor, pl, pr, ul, ur), call(rhol, rhor, pl, pr, ul + c, ur + c)
    print(r1, a, r2, b)
    if r1 != r2 or (r1 == 0 and (differs(a[0], b[0], abs(a[0])) or differs(a[1] + c, b[1], abs(a[1]) + abs(c) + abs(b[1])))):
        bad = "not Galilean invariant for shift %%r" %% c
elif kind == "converged":
    # success must mean that the last Newton change met the tolerance: the
    # argument of the solver's abs() call is recorded through the module
    # globals
    seen = []
    R.abs = lambda x: (seen.append(x), abs(x))[1]
    try:
        r1, a = call(rhol, rhor, pl, pr, ul, ur)
    finally:
        del R.abs
    print(r1, a, seen[-1:])
    if r1 == 0 and (not seen or 2.0*abs(seen[-1]) > tol):
        bad = "success (rc 0) although the last relative Newton change %%r exceeds tol %%r" %% (2.0*abs(seen[-1]) if seen else None, tol)
elif kind == "vacuum":
    r1, a = call(rhol, rhor, pl, pr, ul, ur)
    g4 = 2.0/(gamma - 1.0)
    cl, cr = math.sqrt(gamma*pl/rhol), math.sqrt(gamma*pr/rhor)
    print(r1, a, g4*(cl+cr), ur-ul)
    if g4*(cl + cr) < (ur - ul)*(1 - 1e-12) and r1 == 0:
        bad = "vacuum-generating data reported success"
sys.exit(common.replay_exit(bad))
'''


def _hunt(c, pairs, timeout_ms=8000):
    sv = z3.Solver()
    sv.set("timeout", timeout_ms)
    for p_ in c.pc:
        sv.add(p_)
    if str(sv.check()) != "sat":
        return None
    m0 = sv.model()
    names = ("gamma", "ar", "al", "kr", "kl", "ul", "ur", "rhol", "rhor",
             "pl", "pr")
    fixed = []
    for d in m0.decls():
        if d.name() in names:
            val = m0[d]
            if z3.is_algebraic_value(val):
                val = val.approx(20)
            fixed.append(z3.Real(d.name()) == val)
    for keep in (0, 1, 2):
        if len(fixed) <= keep:
            break
        for off in range(1 if keep == 0 else min(3, len(fixed))):
            g = fixed[off:] + fixed[:off]
            # keep = 0: the claim is evaluated at the model point itself
            r, model = c.prove_eqs(pairs, timeout_ms=timeout_ms,
                                   guard=z3.And(*g[keep:]))
            if r == "sat":
                return model
    return None


def _vals(model, v):
    return [float(model_value(model, v[k].t)) for k in
            ("rhol", "rhor", "pl", "pr", "ul", "ur", "gamma")]


def unit_solver(name, niter=1, tol=1e-6, timeout_ms=60000, fork_minmax=False,
                deadline_s=None, kinds=("symmetry", "equal_states",
                                        "dispatch"), cov=False, slice_=False,
                nonzero_div=False):
    common.use_repo()
    import pysph.sph.gas_dynamics.riemann_solver as R
    f = getattr(R, name)
    idx = SOLVERS.index(name)
    stats = Stats()
    out = dict(unit="%s niter=%d kinds=%s%s%s%s" % (
        name, niter, ",".join(kinds), " cov" if cov else "",
        " fork" if fork_minmax else "",
        " slice(gamma=7/5, right state rho=1 p=5/7)" if slice_ else ""),
               obligations=0, discharged=0, undecided=[], outcomes={})
    v = _inputs(cov, slice_)
    ncex = [0]
    t_start = time.time()

    def cex(kind, what, model, **kw):
        ncex[0] += 1
        d = dict(kind=kind, name=name, niter=niter, tol=tol,
                 vals=_vals(model, v), idx=idx, shift=kw.get("shift", 0.0))
        p = common.write_replay(PID, "%s_%s_%d" % (name, kind, ncex[0]),
                                REPLAY % d)
        common.triage(PID, out, "%s: %s" % (name, what), p,
                      dict(unit=name, kind=kind))

    def claim(c, kind, what, term, **kw):
        out["obligations"] += 1
        r, model = c.prove(term, timeout_ms=timeout_ms)
        if r == "unsat":
            out["discharged"] += 1
        elif r == "sat":
            cex(kind, what, model, **kw)
        else:
            out["undecided"].append(what)

    table = dict(MATH_TABLE)
    table["printf"] = lambda *a: None
    if nonzero_div:
        out["unit"] += " divisors!=0"
    ex = dict(stats=stats, fork_minmax=fork_minmax, formal_cache=cov,
              nonzero_div=nonzero_div,
              feas_timeout_ms=1500 if name in ITERATIVE else 5000,
              deadline_s=deadline_s)
    with patched_globals(R, table):
        if "symmetry" in kinds:
            def run(c):
                _assume_admissible(c, v)
                a = _call(f, (v["rhol"], v["rhor"], v["pl"], v["pr"],
                              v["ul"], v["ur"], v["gamma"]), niter, tol)
                b = _call(f, (v["rhor"], v["rhol"], v["pr"], v["pl"],
                              -v["ur"], -v["ul"], v["gamma"]), niter, tol)
                return a, b
            k = 0
            for path in explore(run, **ex):
                k += 1
                if path.exc is not None:
                    out.setdefault("harness_errors", []).append(
                        "%s raised %r" % (name, path.exc))
                    continue
                (r1, a), (r2, b) = path.value
                key = "%s|%s" % (r1, r2)
                out["outcomes"][key] = out["outcomes"].get(key, 0) + 1
                if r1 != r2:
                    claim(path.ctx, "symmetry", "path %d: return codes %s "
                          "vs %s for the mirrored problem" % (k, r1, r2),
                          z3.BoolVal(False))
                elif r1 == 0:
                    what = "path %d: p* equal, u* negated" % k
                    out["obligations"] += 1
                    r, model = path.ctx.prove_eqs(
                        [(a[0], b[0]), (a[1], -b[1])], timeout_ms=timeout_ms)
                    if r == "unknown":
                        # counter-example hunt on lines through a point of
                        # the path: a model of the path condition fixes all
                        # but one or two inputs (a sat answer is a genuine
                        # counter-example; unsat on the line proves nothing)
                        model = _hunt(path.ctx, [(a[0], b[0]),
                                                 (a[1], -b[1])])
                        if model is not None:
                            r = "sat"
                    if r == "unsat":
                        out["discharged"] += 1
                    elif r == "sat":
                        cex("symmetry", what, model)
                    else:
                        out["undecided"].append(what)
        if "equal_states" in kinds:
            def run2(c):
                _assume_admissible(c, v)
                return _call(f, (v["rhol"], v["rhol"], v["pl"], v["pl"],
                                 v["ul"], v["ul"], v["gamma"]), niter, tol)
            k = 0
            for path in explore(run2, **ex):
                k += 1
                if path.exc is not None:
                    continue
                r1, a = path.value
                if r1 == 0:
                    same = z3.And(to_real(a[0]) == v["pl"].t,
                                  to_real(a[1]) == v["ul"].t)
                    floor = v["pl"].t >= rv(PFLOOR)
                    claim(path.ctx, "equal_states",
                          "equal states path %d: returns the common state "
                          "(p >= 1e-20)" % k, z3.Implies(floor, same))
                    claim(path.ctx, "equal_states_tiny_p",
                          "equal states path %d: returns the common state "
                          "(p < 1e-20)" % k, z3.Implies(z3.Not(floor), same))
        if "vacuum" in kinds:
            from vf.symx import sym_sqrt

            def run4(c):
                _assume_admissible(c, v)
                args = (v["rhol"], v["rhor"], v["pl"], v["pr"], v["ul"],
                        v["ur"], v["gamma"])
                a = _call(f, args, niter, tol)
                cl = sym_sqrt(v["gamma"] * v["pl"] / v["rhol"])
                cr = sym_sqrt(v["gamma"] * v["pr"] / v["rhor"])
                g4 = 2 * (1.0 / (v["gamma"] - 1.0))
                return a, g4 * (cl + cr), v["ur"] - v["ul"]
            k = 0
            for path in explore(run4, **ex):
                k += 1
                if path.exc is not None:
                    continue
                (r1, a), lim, du = path.value
                key = "vacuum:%s" % (r1,)
                out["outcomes"][key] = out["outcomes"].get(key, 0) + 1
                if r1 == 0:
                    claim(path.ctx, "vacuum", "path %d: success only for "
                          "non-vacuum data" % k, to_real(lim) > to_real(du))
        if "converged" in kinds:
            from vf.symx import sym_abs
            rec = []

            def abs_rec(x):
                rec.append(x)
                return sym_abs(x)

            def run5(c):
                _assume_admissible(c, v)
                del rec[:]
                R.abs = abs_rec
                a = _call(f, (v["rhol"], v["rhor"], v["pl"], v["pr"],
                              v["ul"], v["ur"], v["gamma"]), niter, tol)
                return a, list(rec)
            k = 0
            try:
                for path in explore(run5, **ex):
                    k += 1
                    if path.exc is not None:
                        continue
                    (r1, a), seen = path.value
                    key = "converged:%s" % (r1,)
                    out["outcomes"][key] = out["outcomes"].get(key, 0) + 1
                    if r1 == 0:
                        if not seen:
                            term = z3.BoolVal(False)
                        else:
                            ch = 2 * sym_abs(seen[-1])
                            term = to_real(ch) <= rv(Fraction(repr(tol)))
                        claim(path.ctx, "converged", "path %d: success only "
                              "when the last relative Newton change <= tol"
                              % k, term)
            finally:
                R.abs = sym_abs
        if "dispatch" in kinds:
            def run3(c):
                _assume_admissible(c, v)
                args = (v["rhol"], v["rhor"], v["pl"], v["pr"], v["ul"],
                        v["ur"], v["gamma"])
                a = _call(f, args, niter, tol)
                b = _call(lambda *q: R.riemann_solve(idx, *q), args, niter,
                          tol)
                return a, b
            k = 0
            for path in explore(run3, **ex):
                k += 1
                if path.exc is not None:
                    continue
                (r1, a), (r2, b) = path.value
                if r1 != r2:
                    claim(path.ctx, "dispatch", "dispatch rc", z3.BoolVal(False))
                else:
                    claim(path.ctx, "dispatch",
                          "riemann_solve(%d) == %s path %d" % (idx, name, k),
                          z3.And(to_real(a[0]) == to_real(b[0]),
                                 to_real(a[1]) == to_real(b[1])))
    out["stats"] = stats.as_dict()
    out["sample"] = dict(unit=out["unit"], outcomes=out["outcomes"],
                         symbolic=["rhol,rhor,pl,pr>0", "ul,ur",
                                   "1<gamma<=3"])
    return out


def main():
    t = common.tier()
    common.use_repo()
    import pysph.sph.gas_dynamics.riemann_solver as R
    rep = common.Report(
        PID, "other",
        "bounded symbolic execution of the real riemann_solver functions on "
        "exact-real proxies (forward and mirrored problem in one path); z3 "
        "decides each path pair")
    rep.functions = [common.func_ref(getattr(R, s)) for s in
                     SOLVERS + ["riemann_solve", "prefun_exact", "SIGN"]]
    cap = 45000 if t == "quick" else 300000
    dl = 240 if t == "quick" else 1500
    units = []

    def add(name, kinds, **kw):
        d = dict(name=name, niter=2 if name in ITERATIVE else 1,
                 timeout_ms=cap, deadline_s=dl, kinds=kinds)
        d.update(kw)
        units.append(("vf.props.c15", "unit_solver", d))
    for s_ in ("non_diffusive", "roe", "llxf", "hllc_ball"):
        add(s_, ("symmetry",))
    for s_ in ("hllsy", "hlle"):
        add(s_, ("symmetry",), cov=True, fork_minmax=True)
    for s_ in ("hllc", "hll_ball", "ducowicz", "exact"):
        # bug-hunting slice (4 symbolic reals): decided paths are claims on
        # the slice only, undecided ones are listed.  van_leer is left out:
        # its Newton iterate nests square roots and z3 does not return from
        # the first feasibility query (the unit is killed by the hard limit)
        add(s_, ("symmetry",), cov=True, fork_minmax=True, slice_=True,
            nonzero_div=True,
            timeout_ms=10000 if t == "quick" else 60000,
            deadline_s=170 if t == "quick" else 1500)
    if t == "thorough":
        # attempted, time-boxed: what stays unknown is reported undecided
        for s_ in ("hllc", "hll_ball", "ducowicz", "van_leer", "exact"):
            add(s_, ("symmetry",), cov=True, fork_minmax=True)
    for s_ in SOLVERS:
        add(s_, ("equal_states",))
        add(s_, ("dispatch",))
    add("exact", ("vacuum",))
    # exact: return code 0 only after the convergence test was met (the
    # argument of the solver's abs() is recorded through the module globals);
    # niter=1 has no success path on the unchanged tree, niter=2 has
    add("exact", ("converged",), niter=1)
    add("exact", ("converged",), niter=2, deadline_s=150 if t == "quick"
        else 1500)
    # scaling / Galilean equivariance of van_leer by induction over the
    # Newton iteration (initial guess, one pass from a symbolic iterate,
    # final averaging), see vf/props/c15_step.py
    units.append(("vf.props.c15_step", "unit_van_leer_step",
                  dict(timeout_ms=60000 if t == "quick" else 300000)))
    rep.bounds = dict(solvers=SOLVERS, niter_iterative=2,
                      symmetry_decided_for=["non_diffusive", "roe", "llxf",
                                            "hllc_ball", "hllsy",
                                            "hlle (part)"],
                      symmetry_attempted_thorough_only=[
                          "hllc", "hll_ball", "ducowicz", "van_leer",
                          "exact"],
                      symmetry_on_slice=dict(
                          solvers=["hllc", "hll_ball", "ducowicz", "exact"],
                          slice="gamma = 7/5, right state rho = 1, p = 5/7; "
                          "left state and both velocities symbolic",
                          note="time-boxed; divisors assumed non-zero (no "
                          "ZeroDivisionError fork); a path whose query "
                          "stays unknown is followed by a counter-example "
                          "hunt: the claim is evaluated at a model of the "
                          "path condition and on lines through it"),
                      query_timeout_ms=cap, unit_deadline_s=dl,
                      van_leer_step="init / one Newton pass from an arbitrary "
                      "iterate P > 0 / final averaging, cut from the AST of "
                      "van_leer; scaling factor k > 0 and velocity shift c "
                      "symbolic; any niter by induction",
                      numeric_domain="exact reals; sqrt = non-negative root, "
                      "pow uninterpreted")
    rep.assumptions = ["floats as reals (rounding outside the claim)",
                       "rho, p > 0, 1 < gamma <= 3, tol = 1e-6",
                       "ZeroDivisionError/ValueError are treated as an "
                       "outcome class that must also mirror",
                       "printf shadowed by a no-op"]
    rep.outside = ["more Newton iterations than the stated niter (except "
                   "the inductive van_leer unit)",
                   "IEEE rounding",
                   "Galilean shift / pressure-density scaling of the exact "
                   "solver and the size of its pressure-function residual (pow with a symbolic "
                   "exponent is uninterpreted; not decidable here); for "
                   "van_leer they are decided by the inductive step unit "
                   "under the hypotheses that the pressure floor smallp "
                   "never binds and no divisor vanishes",
                   "reflection symmetry of hllc, hll_ball, ducowicz, van_leer "
                   "and exact in the quick tier (NRA queries exceed the cap; "
                   "attempted in the thorough tier and reported undecided "
                   "when they time out)"]
    common.run_units(rep, units)
    return rep.finish()


if __name__ == "__main__":
    sys.exit(main())
