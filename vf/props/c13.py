"""C13 -- dense linear-algebra helpers (pysph/sph/wc/linalg.py; linalg3.pyx
is handled by c13_eig once cy2py can lower it).

Unit A: the real python functions are executed on SReal proxies (exact
reals), every path closed by z3."""
import sys
import json
import itertools
from fractions import Fraction

import z3

from vf import common
from vf.symx import is_sym
from vf.symx import (explore, patched_globals, real, SReal, Stats, to_real,
                     model_value, rv)

PID = "C13"
WELL_MAX = 100            # |a_ij|, |b_i| <= WELL_MAX in the "well scaled" class
WELL_DET = Fraction(1, 1000)


def det(A):
    n = len(A)
    if n == 1:
        return A[0][0]
    tot = 0
    for j in range(n):
        minor = [row[:j] + row[j + 1:] for row in A[1:]]
        tot = tot + ((-1) ** j) * A[0][j] * det(minor)
    return tot


def _floats(model, terms):
    return [float(model_value(model, to_real(t))) for t in terms]


REPLAY_GJ = common.REPLAY_HEADER + '''
common.use_repo()
import numpy as np
from pysph.sph.wc.linalg import gj_solve
n, nb = %(n)d, %(nb)d
A = np.array(%(A)r, dtype=float).reshape(n, n)
B = np.array(%(B)r, dtype=float).reshape(n, nb)
m = np.hstack([A, B]).ravel().tolist()
res = [0.0]*(n*nb)
rc = gj_solve(m, n, nb, res)
d = np.linalg.det(A)
scale = max(1e-300, np.abs(A).max())
cond = np.linalg.cond(A) if d != 0 else np.inf
print("A=", A.tolist(), "b=", B.tolist(), "rc=", rc, "det=", d, "cond=", cond, "x=", res)
if rc != 0.0:
    # claimed singular: violated if A is clearly non-singular
    if abs(d) > 1e-9*scale**n and cond < 1e8:
        sys.exit(common.replay_exit("gj_solve returned %%s for a non-singular, well conditioned matrix" %% rc))
    sys.exit(common.replay_exit(None))
x = np.array(res).reshape(n, nb)
r = np.abs(A.dot(x) - B).max()
ref = np.abs(A).max()*np.abs(x).max() + np.abs(B).max()
if not np.isfinite(r) or r > 1e-8*cond*max(ref, 1e-300):
    sys.exit(common.replay_exit("residual %%r too large for conditioning %%r" %% (r, cond)))
sys.exit(common.replay_exit(None))
'''


TINY = Fraction(1, 10**13)      # scale of the "uniformly tiny" class


def unit_gj(n, nb, timeout_ms=60000, shard=0, nshards=1):
    common.use_repo()
    from pysph.sph.wc import linalg
    A = [[real("a%d%d" % (i, j)) for j in range(n)] for i in range(n)]
    B = [[real("b%d%d" % (i, j)) for j in range(nb)] for i in range(n)]
    flatA = [x for r in A for x in r]
    flatB = [x for r in B for x in r]
    dA = det(A)
    stats = Stats()
    out = dict(unit="gj_solve n=%d nb=%d shard %d/%d" % (n, nb, shard, nshards),
               obligations=0,
               discharged=0, undecided=[], rc_paths={})
    findings = common.load_findings(PID)
    seen_classes = set()

    def run(c):
        m = []
        for i in range(n):
            m.extend(A[i] + B[i])
        res = [0.0] * (n * nb)
        rc = linalg.gj_solve(m, n, nb, res)
        return rc, res

    well = z3.And(*[z3.And(to_real(x) <= WELL_MAX, to_real(x) >= -WELL_MAX)
                    for x in flatA + flatB])
    dt = to_real(dA)
    det_big = z3.Or(dt >= rv(WELL_DET), dt <= rv(-WELL_DET))
    # uniformly tiny but perfectly conditioned matrices: |a_ij| <= TINY and
    # |det| >= TINY^n / 1000 (e.g. TINY * I)
    tiny = z3.And(*[z3.And(to_real(x) <= rv(TINY), to_real(x) >= rv(-TINY))
                    for x in flatA])
    tdet = WELL_DET * TINY ** n
    tiny_det = z3.Or(dt >= rv(tdet), dt <= rv(-tdet))

    def cex(kind, cls, model, k):
        name = "gj_n%d_nb%d_%s_%d" % (n, nb, cls, k)
        script = REPLAY_GJ % dict(n=n, nb=nb, A=_floats(model, flatA),
                                  B=_floats(model, flatB))
        p = common.write_replay(PID, name, script)
        info = dict(unit="gj_solve", kind=kind, cls=cls)
        return common.triage(PID, out, "gj_solve n=%d nb=%d %s (%s)" %
                             (n, nb, kind, cls), p, info, findings)

    with patched_globals(linalg):
        k = 0
        for path in explore(run, stats=stats, feas_timeout_ms=5000):
            k += 1
            c = path.ctx
            if k % nshards != shard:
                continue
            if path.exc is not None:
                out.setdefault("harness_errors", []).append(
                    "gj_solve raised %r on a symbolic path" % (path.exc,))
                continue
            rc, res = path.value
            out["rc_paths"][str(rc)] = out["rc_paths"].get(str(rc), 0) + 1
            if rc == 0.0:
                # claim A: non-singular => A x = b
                eqs = []
                for i in range(n):
                    for j in range(nb):
                        lhs = 0
                        for l in range(n):
                            lhs = lhs + A[i][l] * res[nb * l + j]
                        eqs.append(to_real(lhs) == to_real(B[i][j]))
                out["obligations"] += 1
                r, model = c.prove(z3.Implies(dt != 0, z3.And(*eqs)),
                                   timeout_ms=timeout_ms)
                if r == "unsat":
                    out["discharged"] += 1
                elif r == "sat":
                    cex("wrong_solution", "solve", model, k)
                else:
                    out["undecided"].append("A.x=b on rc=0 path %d" % k)
            else:
                # claim B (well-scaled class): rc != 0 => singular
                out["obligations"] += 1
                r, model = c.prove(z3.Not(z3.And(well, det_big)),
                                   timeout_ms=timeout_ms)
                if r == "unsat":
                    out["discharged"] += 1
                elif r == "sat":
                    if cex("rejects_nonsingular", "well_scaled", model, k) \
                            != "harness":
                        out["discharged"] += 1
                else:
                    out["undecided"].append(
                        "rc!=0 => singular (well scaled) on path %d" % k)
                # claim B on uniformly tiny, well conditioned matrices
                if "tiny" not in seen_classes:
                    out["obligations"] += 1
                    r, model = c.prove(z3.Not(z3.And(tiny, tiny_det)),
                                       timeout_ms=timeout_ms)
                    if r == "unsat":
                        out["discharged"] += 1
                    elif r == "sat":
                        if cex("rejects_nonsingular", "tiny_scale", model,
                               k) != "harness":
                            out["discharged"] += 1
                            seen_classes.add("tiny")
                    else:
                        out["undecided"].append(
                            "rc!=0 => singular (tiny scale) on path %d" % k)
    # vacuity guard: both return codes must have been reached
    if n >= 2 and nshards == 1 and not (out["rc_paths"].get("0.0") and
                       out["rc_paths"].get("1.0")):
        out.setdefault("harness_errors", []).append(
            "vacuity: return codes reached = %s" % out["rc_paths"])
    out["stats"] = stats.as_dict()
    out["sample"] = dict(unit=out["unit"], symbolic_inputs=[str(x.t) for x in
                                                            flatA + flatB],
                         rc_paths=out["rc_paths"])
    return out


REPLAY_HELPER = common.REPLAY_HEADER + '''
common.use_repo()
import numpy as np
from pysph.sph.wc import linalg
n = %(n)d
a = np.array(%(a)r, dtype=float); b = np.array(%(b)r, dtype=float)
which = %(which)r
try:
  if which == "mat_mult":
      r = [0.0]*(n*n); linalg.mat_mult(a.tolist(), b.tolist(), n, r)
      ref = a.reshape(n, n).dot(b.reshape(n, n)).ravel()
  elif which == "mat_vec_mult":
      r = [0.0]*n; linalg.mat_vec_mult(a.tolist(), b.tolist(), n, r)
      ref = a.reshape(n, n).dot(b)
  elif which == "dot":
      r = [linalg.dot(a.tolist(), b.tolist(), n)]; ref = [a.dot(b)]
  elif which == "identity":
      r = [7.0]*(n*n); linalg.identity(r, n); ref = np.eye(n).ravel()
  elif which == "augmented_matrix":
      na, nmax = %(na)d, %(nmax)d
      r = [0.0]*((nmax+na)*n)
      linalg.augmented_matrix(a.tolist(), b.tolist(), n, na, nmax, r)
      ref = np.hstack([a.reshape(nmax, nmax)[:n, :n], b.reshape(-1, na)[:n]]).ravel()
      r = r[:(n+na)*n]
except IndexError as e:
    print(which, "raised", repr(e))
    sys.exit(common.replay_exit(which + " indexes outside its arrays: %%r" %% (e,)))
print(which, "got", list(r), "expected", list(ref))
sys.exit(common.replay_exit(None if np.allclose(np.array(r, dtype=float), ref, rtol=1e-12, atol=1e-12) else which + " differs from its definition"))
'''


def unit_helpers(n):
    common.use_repo()
    from pysph.sph.wc import linalg
    stats = Stats()
    out = dict(unit="linalg helpers n=%d" % n, obligations=0, discharged=0,
               undecided=[])
    a = [real("a%d" % i) for i in range(n * n)]
    b = [real("b%d" % i) for i in range(n * n)]

    def check(which, got, ref, c, inputs, **kw):
        out["obligations"] += 1
        claim = z3.And(*[to_real(g) == to_real(r) for g, r in zip(got, ref)]) \
            if len(got) == len(ref) else z3.BoolVal(False)
        r, model = c.prove(claim, timeout_ms=20000)
        if r == "unsat":
            out["discharged"] += 1
        elif r == "sat":
            av, bv = inputs
            d = dict(n=n, which=which, a=_floats(model, av),
                     b=_floats(model, bv), na=kw.get("na", 1),
                     nmax=kw.get("nmax", n))
            p = common.write_replay(PID, "helper_%s_n%d" % (which, n),
                                    REPLAY_HELPER % d)
            common.triage(PID, out, "%s n=%d differs from its definition" %
                          (which, n), p, dict(unit=which))
        else:
            out["undecided"].append("%s n=%d" % (which, n))

    def run(c):
        # mat_mult
        r = [0.0] * (n * n)
        linalg.mat_mult(list(a), list(b), n, r)
        ref = [sum((a[n * i + j] * b[n * j + k] for j in range(n)), 0.0)
               for i in range(n) for k in range(n)]
        check("mat_mult", r, ref, c, (a, b))
        r = [0.0] * n
        linalg.mat_vec_mult(list(a), list(b[:n]), n, r)
        ref = [sum((a[n * i + j] * b[j] for j in range(n)), 0.0)
               for i in range(n)]
        check("mat_vec_mult", r, ref, c, (a, b[:n]))
        r = [linalg.dot(list(a[:n]), list(b[:n]), n)]
        ref = [sum((a[i] * b[i] for i in range(n)), 0.0)]
        check("dot", r, ref, c, (a[:n], b[:n]))
        r = [real("junk%d" % i) for i in range(n * n)]
        try:
            linalg.identity(r, n)
        except IndexError:
            r = []           # reported as a difference (replay confirms)
        ref = [1.0 if i == j else 0.0 for i in range(n) for j in range(n)]
        check("identity", r, ref, c, (a[:0], b[:0]))
        # augmented matrix: nmax >= n, na in 1..2
        for nmax in (n, n + 1):
            for na in (1, 2):
                A = [real("A%d" % i) for i in range(nmax * nmax)]
                bb = [real("B%d" % i) for i in range(nmax * na)]
                r = [real("junk%d" % i) for i in range((nmax + na) * n)]
                linalg.augmented_matrix(list(A), list(bb), n, na, nmax, r)
                ref = []
                for i in range(n):
                    ref.extend(A[nmax * i + j] for j in range(n))
                    ref.extend(bb[na * i + j] for j in range(na))
                check("augmented_matrix", r[:(n + na) * n], ref, c, (A, bb),
                      na=na, nmax=nmax)
        return None

    with patched_globals(linalg):
        for path in explore(run, stats=stats):
            if path.exc is not None:
                out.setdefault("harness_errors", []).append(
                    "helpers raised %r" % (path.exc,))
    out["stats"] = stats.as_dict()
    return out


REPLAY_EIG = common.REPLAY_HEADER + '''
common.use_repo_with_build()
import numpy as np
from pysph.base.linalg3 import py_eigen_decompose_eispack
A = np.array(%(A)r, dtype=float)
d, V = py_eigen_decompose_eispack(A.copy())
scale = max(1e-300, np.abs(A).max())
r1 = np.abs(A.dot(V) - V.dot(np.diag(d))).max()/scale
r2 = np.abs(V.T.dot(V) - np.eye(3)).max()
print("A =", A.tolist(), "d =", d.tolist(), "V =", V.tolist(), "residuals", r1, r2)
bad = None
if not (r1 < 1e-9 and r2 < 1e-9):
    bad = "eigen-decomposition: |A V - V diag(d)|/|A| = %%g, |V^T V - I| = %%g" %% (r1, r2)
sys.exit(common.replay_exit(bad))
'''


def _linalg3_module():
    import os
    from vf import cy2py
    from vf.symx import MATH_TABLE
    M = cy2py.Module(extra=dict(n=3, fabs=MATH_TABLE["abs"],
                                sqrt=MATH_TABLE["sqrt"], EPS=2.0 ** -52))
    M.add_file(os.path.join(common.REPO, "pysph", "base", "linalg3.pyx"))
    for f in ("MAX", "SQR", "hypot2", "zero_matrix_case", "tred2", "tql2",
              "eigen_decomposition"):
        M.load(f)
    return M


def unit_tred2(kind="full", deadline_s=240, timeout_ms=20000):
    """Householder reduction of linalg3.pyx (lowered): for every symmetric A
    the accumulated transformation Q is orthogonal and Q^T A Q is the
    tridiagonal matrix (d, e) it returns.  `kind` restricts the zero
    pattern so that every branch (scale == 0, h == 0) is reached."""
    common.use_repo()
    stats = Stats()
    out = dict(unit="linalg3.tred2 (%s symmetric 3x3)" % kind, obligations=0,
               discharged=0, undecided=[])
    try:
        M = _linalg3_module()
    except Exception as e:
        out.setdefault("harness_errors", []).append(
            "linalg3.pyx not lowered: %r" % (e,))
        out["stats"] = stats.as_dict()
        return out
    tred2 = M.ns["tred2"]
    names = ["a00", "a01", "a02", "a11", "a12", "a22"]
    zero = dict(full=(), plane=("a02", "a12"), diag=("a01", "a02", "a12"),
                xz=("a01", "a12"), yz=("a01", "a02"), tri=("a02",),
                a12=("a12",))[kind]
    sym = dict((k, (0.0 if k in zero else real(k))) for k in names)

    def mat():
        a = sym
        return [[a["a00"], a["a01"], a["a02"]],
                [a["a01"], a["a11"], a["a12"]],
                [a["a02"], a["a12"], a["a22"]]]

    def run(c):
        V = mat()
        d, e = [0.0] * 3, [0.0] * 3
        tred2(V, d, e)
        return V, d, e

    ncex = [0]
    for path in explore(run, stats=stats, max_paths=400, fork_minmax=True,
                        feas_timeout_ms=3000, deadline_s=deadline_s):
        if isinstance(path.exc, ZeroDivisionError):
            out["obligations"] += 1
            r, model = path.ctx.prove(z3.BoolVal(False), timeout_ms=20000)
            what = "tred2 divides by zero"
            if r == "unsat":
                out["discharged"] += 1
                continue
        elif path.exc is not None:
            out.setdefault("harness_errors", []).append(
                "tred2 raised %r" % (path.exc,))
            continue
        else:
            Q, d, e = path.value
            A = mat()
            pairs = []
            for i in range(3):
                for j in range(3):
                    qtq = sum((Q[k][i] * Q[k][j] for k in range(3)), 0.0)
                    pairs.append((qtq, 1.0 if i == j else 0.0))
                    qaq = sum((Q[k][i] * A[k][l] * Q[l][j]
                               for k in range(3) for l in range(3)), 0.0)
                    if i == j:
                        t_ = d[i]
                    elif abs(i - j) == 1:
                        t_ = e[max(i, j)]
                    else:
                        t_ = 0.0
                    pairs.append((qaq, t_))
            out["obligations"] += 1
            r, model = path.ctx.prove_eqs(pairs, timeout_ms=timeout_ms)
            what = "Q orthogonal and Q^T A Q = tridiag(d, e)"
            if r == "unsat":
                out["discharged"] += 1
                continue
        if r == "sat":
            ncex[0] += 1
            vals = dict((k, float(model_value(model, v.t)) if is_sym(v)
                         else 0.0) for k, v in sym.items())
            Am = [[vals["a00"], vals["a01"], vals["a02"]],
                  [vals["a01"], vals["a11"], vals["a12"]],
                  [vals["a02"], vals["a12"], vals["a22"]]]
            p = common.write_replay(PID, "tred2_%s_%d" % (kind, ncex[0]),
                                    REPLAY_EIG % dict(A=Am))
            common.triage(PID, out, "tred2 (%s): %s fails" % (kind, what), p,
                          dict(unit="tred2"), soft=True)
        else:
            out["undecided"].append("tred2 %s: %s" % (kind, what))
    out["stats"] = stats.as_dict()
    return out


def main():
    t = common.tier()
    common.use_repo()
    from pysph.sph.wc import linalg
    rep = common.Report(PID, "other",
                        "bounded symbolic execution of the real "
                        "pysph.sph.wc.linalg functions on exact-real proxies; "
                        "z3 decides every path")
    rep.functions = [common.func_ref(getattr(linalg, f)) for f in
                     ("gj_solve", "mat_mult", "mat_vec_mult", "dot",
                      "identity", "augmented_matrix")]
    sizes = [(1, 1), (2, 1), (2, 2), (3, 1)] if t == "quick" else \
        [(1, 1), (2, 1), (2, 2), (3, 1), (3, 2), (4, 1)]
    rep.bounds = dict(gj_solve_sizes=sizes, helpers_n=[1, 2, 3],
                      numeric_domain="exact reals (python float as z3 Real)",
                      well_scaled_class="|a_ij|,|b_i| <= %d and |det| >= %s"
                      % (WELL_MAX, WELL_DET))
    rep.assumptions = [
        "python floats are modelled as mathematical reals: rounding error "
        "(the 'residual bounded by conditioning' clause) is outside the claim",
        "abs/float shadowed in linalg's module globals by symbolic versions",
    ]
    rep.outside = ["the 3x3 eigen-decomposition beyond its Householder "
                   "stage: tred2 is checked (Q orthogonal, Q^T A Q = "
                   "tridiag(d, e)) for symmetric matrices with at least one "
                   "zero off-diagonal entry (every branch of tred2 is "
                   "reached); a full matrix does not get through the formal "
                   "normaliser, and the iterative QL stage tql2 (convergence "
                   "to machine epsilon) is not encodable over exact reals",
                   "n > %d" % max(s[0] for s in sizes),
                   "floating-point residual bounds",
                   "linalg3.pyx eigen-decomposition (see c13 unit B when "
                   "registered)"]
    units = []
    for n, nb in sizes:
        nsh = 1 if n <= 2 else (12 if n == 3 else 16)
        tmo = 45000 if t == "quick" else 300000
        for sh in range(nsh):
            units.append(("vf.props.c13", "unit_gj",
                          dict(n=n, nb=nb, shard=sh, nshards=nsh,
                               timeout_ms=tmo)))
    units += [("vf.props.c13", "unit_helpers", dict(n=n)) for n in (1, 2, 3)]
    units += [("vf.props.c13", "unit_tred2",
               dict(kind=k, deadline_s=240 if t == "quick" else 1200))
              for k in ("diag", "plane", "xz", "yz", "tri", "a12")]
    rep.functions.append("pysph/base/linalg3.pyx tred2 (lowered) sha=%s" %
                         common.sha_of(common.REPO +
                                       "/pysph/base/linalg3.pyx"))
    common.run_units(rep, units)
    return rep.finish()


if __name__ == "__main__":
    sys.exit(main())
