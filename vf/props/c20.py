"""C20 -- incomplete problems are rejected at set-up.

Which property/constant names an array has is a solver variable (SSet: one
z3 Bool per name).  The real AccelerationEval constructor (with
check_equation_array_properties, Group/MegaGroup) and the real stepper
check of IntegratorCythonHelper run on such arrays; the names the generated
set-up code dereferences are obtained from the real get_dest_array_setup /
get_src_array_setup / get_array_setup."""
import sys
import re
import inspect
import importlib
import pkgutil
import types

import z3

from vf import common
from vf.symx import (explore, patched_globals, Stats, model_value, SBool)
from vf.symset import SSet, ModelArray, sym_list, sym_set

PID = "C20"
MAX_MISSING = 2
MAX_MISSING_STEPPER = 1
EQ_PACKAGES = ["pysph.sph"]
QUICK_MODULES = ["pysph.sph.basic_equations", "pysph.sph.wc.basic",
                 "pysph.sph.wc.transport_velocity", "pysph.sph.wc.edac",
                 "pysph.sph.wc.viscosity", "pysph.sph.gas_dynamics.basic",
                 "pysph.sph.solid_mech.basic", "pysph.sph.iisph",
                 "pysph.sph.wc.density_correction",
                 "pysph.sph.boundary_equations"]


def all_modules():
    import pysph.sph
    mods = []
    for m in pkgutil.walk_packages(pysph.sph.__path__, "pysph.sph."):
        n = m.name
        if ".tests" in n or n.endswith("_gpu_helper") or "gpu" in n:
            continue
        mods.append(n)
    return sorted(mods)


def instantiate(C, dest, sources):
    """construct an equation/stepper with plausible arguments"""
    sig = inspect.signature(C.__init__)
    kw = {}
    for name, p in list(sig.parameters.items())[1:]:
        if name in ("dest", "sources") or p.kind in (p.VAR_KEYWORD,
                                                     p.VAR_POSITIONAL):
            continue
        if p.default is not inspect._empty:
            continue
        if name == "dim":
            kw[name] = 2
        elif name in ("kernel",):
            from pysph.base.kernels import CubicSpline
            kw[name] = CubicSpline(dim=2)
        elif name in ("dt", "tol", "nu", "rho0", "c0", "p0", "pb", "gamma",
                      "alpha", "beta", "hdx", "h", "k", "eps", "g1", "g2"):
            kw[name] = 1.0
        else:
            kw[name] = 1.0
    return C(dest=dest, sources=sources, **kw)


def equation_classes(modname):
    from pysph.sph.equation import Equation
    mod = importlib.import_module(modname)
    out = []
    for n, C in inspect.getmembers(mod, inspect.isclass):
        if C.__module__ != modname or not issubclass(C, Equation) or \
                C is Equation:
            continue
        out.append(C)
    return out


def _names(text, what):
    return set(re.findall(r"%s\.(\w+)\.data" % what, text))


REPLAY = common.REPLAY_HEADER + '''
common.use_repo_with_build()
import importlib, inspect, numpy as np
from pysph.base.utils import get_particle_array
from pysph.sph.acceleration_eval import AccelerationEval
from vf.props.c20 import instantiate
mod, cls, srcs = %(mod)r, %(cls)r, %(srcs)r
have = %(have)r        # array name -> list of property names it has
missing = %(missing)r  # (array, name) pairs the generated set-up code reads
C = getattr(importlib.import_module(mod), cls)
arrays = []
for an, names in have.items():
    pa = get_particle_array(name=an, x=[0.0, 1.0])
    for p in list(pa.properties.keys()):
        if p not in names and p not in ("tag", "gid", "pid"):
            pa.remove_property(p)
    for p in names:
        if p not in pa.properties:
            pa.add_property(p)
    arrays.append(pa)
eq = instantiate(C, "d", srcs)
bad = None
try:
    AccelerationEval(arrays, [eq], kernel=None, backend="cython")
    bad = "AccelerationEval constructed without error although %%s reads %%s" %% (cls, missing)
except RuntimeError as e:
    msg = str(e)
    print("raised:", msg)
    if eq.name not in msg or not any(n in msg for (_, n) in missing):
        bad = "error does not name the equation and a missing property: %%r" %% msg
sys.exit(common.replay_exit(bad))
'''


def unit_module(modname, timeout_ms=10000):
    common.use_repo_with_build()
    import pysph.sph.acceleration_eval as AE
    from pysph.sph.acceleration_eval_cython_helper import \
        AccelerationEvalCythonHelper as H
    stats = Stats()
    out = dict(unit="equations of %s" % modname, obligations=0, discharged=0,
               undecided=[], classes=[], skipped=[])
    findings = common.load_findings(PID)
    try:
        classes = equation_classes(modname)
    except Exception as e:
        out["skipped"].append("module import failed: %r" % (e,))
        classes = []
    ncex = [0]
    for C in classes:
        hooks = [m for m in ("loop", "loop_all", "initialize_pair")
                 if hasattr(C, m)]
        srcs = ["d", "s"] if hooks else None
        try:
            eq = instantiate(C, "d", srcs)
        except Exception as e:
            out["skipped"].append("%s: not instantiable (%s)" %
                                  (C.__name__, str(e)[:80]))
            continue
        # names the generated set-up code dereferences (real code, run once
        # on arrays that have everything)
        try:
            g = AE.CythonGroup(equations=[eq])
            sa, da = g.get_array_names()
        except Exception as e:
            out["skipped"].append("%s: %r" % (C.__name__, e))
            continue
        # every ParticleArray carries tag/pid/gid: "tag" stands for them
        # and is always present (without it the model admits an array whose
        # names equal the equation's needs, which the strict-subset test of
        # the checker rejects with "missing properties set()" - no real
        # array is in that state)
        uni = set(x[2:] for x in sa | da) | set(["zz_unrelated", "tag"])
        if len(uni) > 40:
            out["skipped"].append("%s: %d names" % (C.__name__, len(uni)))
            continue
        out["classes"].append(C.__name__)

        def run(c, C=C, srcs=srcs, uni=uni):
            pd = SSet.fresh("d", uni)
            ps = SSet.fresh("s", uni)
            neg = [(z3.Not(m), 1) for m in pd.mem.values()] + \
                  [(z3.Not(m), 1) for m in ps.mem.values()]
            c.assume_unchecked(z3.PbLe(neg, MAX_MISSING))
            c.assume_unchecked(z3.And(pd._m("tag"), ps._m("tag")))
            arrays = [ModelArray("d", pd), ModelArray("s", ps)]
            eq = instantiate(C, "d", srcs)
            try:
                ae = AE.AccelerationEval(arrays, [eq], kernel=None,
                                         backend="cython")
            except RuntimeError as e:
                return ("raised", str(e), eq, pd, ps)
            reads = []
            for mg in ae.mega_groups:
                for dest, (nosrc, sources, alleqs) in mg.data.items():
                    txt = H.get_dest_array_setup(None, dest, nosrc, sources,
                                                 mg)
                    reads += [("d", n) for n in _names(txt, "dst")]
                    for sname, sg in sources.items():
                        txt = H.get_src_array_setup(None, sname, sg)
                        reads += [(sname, n) for n in _names(txt, "src")]
            return ("ok", reads, eq, pd, ps)

        table = dict(list=sym_list, set=sym_set, print=lambda *a, **k: None)
        with patched_globals(AE, table):
            for path in explore(run, stats=stats, feas_timeout_ms=3000,
                                max_paths=3000):
                c = path.ctx
                if path.exc is not None:
                    out.setdefault("harness_errors", []).append(
                        "%s raised %r" % (C.__name__, path.exc))
                    break
                kind, info, eq, pd, ps = path.value
                mem = {"d": pd, "s": ps}
                if kind == "ok":
                    needed = [mem[a]._m(n) for a, n in info]
                    out["obligations"] += 1
                    r, model = c.prove(z3.And(*needed) if needed else
                                       z3.BoolVal(True),
                                       timeout_ms=timeout_ms)
                    what = "%s: constructed => every dereferenced name is " \
                        "present" % C.__name__
                else:
                    msg = info
                    # error: names the equation; every name it lists is
                    # really missing; and it lists at least one when the
                    # problem is incomplete
                    listed = []
                    for an in ("d", "s"):
                        mm = re.search(r"Array '%s' missing properties "
                                       r"\{(.*?)\}" % an, msg)
                        if mm:
                            listed += [(an, x.strip().strip("'"))
                                       for x in mm.group(1).split(",")
                                       if x.strip()]
                    really = z3.And(*[z3.Not(mem[a]._m(n))
                                      for a, n in listed]) if listed else \
                        z3.BoolVal(True)
                    sa_, da_ = AE.CythonGroup(equations=[eq]).get_array_names()
                    need = [pd._m(x[2:]) for x in da_]
                    if eq.sources:
                        for sn in eq.sources:
                            need += [mem[sn]._m(x[2:]) for x in sa_]
                    incomplete = z3.Not(z3.And(*need)) if need else \
                        z3.BoolVal(False)
                    named = z3.BoolVal(eq.name in msg and len(listed) > 0)
                    out["obligations"] += 1
                    r, model = c.prove(
                        z3.And(really, z3.Implies(incomplete, named)),
                        timeout_ms=timeout_ms)
                    what = "%s: error names the equation and only really " \
                        "missing names (message %r)" % (C.__name__,
                                                        msg[:200])
                if r == "unsat":
                    out["discharged"] += 1
                elif r == "sat":
                    ncex[0] += 1
                    have = {}
                    for an, ss in mem.items():
                        have[an] = [u for u in ss.universe if
                                    model_value(model, ss.mem[u])]
                    missing = [(a, n) for a, n in (info if kind == "ok"
                                                   else [])
                               if not model_value(model, mem[a]._m(n))]
                    p = common.write_replay(
                        PID, "%s_%d" % (C.__name__, ncex[0]),
                        REPLAY % dict(mod=modname, cls=C.__name__, srcs=srcs,
                                      have=have, missing=missing))
                    ex_s, ex_d = _explicit(eq)
                    exneed = {"d": ex_d | ex_s, "s": ex_s}
                    implicit = all(n not in exneed[a] for a, n in missing) \
                        and len(missing) > 0
                    common.triage(PID, out, what, p,
                                  dict(unit="check_equation_array_properties",
                                       kind=kind,
                                       cls="implicit" if implicit else
                                       "explicit"), findings)
                else:
                    out["undecided"].append(what)
    out["stats"] = stats.as_dict()
    out["sample"] = dict(unit=out["unit"], classes=out["classes"][:6])
    return out


def _explicit(eq):
    from pysph.sph.equation import get_arrays_used_in_equation
    s, d = get_arrays_used_in_equation(eq)
    return set(x[2:] for x in s), set(x[2:] for x in d)


def unit_misspelt():
    """concrete: invalid dest / source / stepper array names always raise
    and the message names them"""
    common.use_repo_with_build()
    import pysph.sph.acceleration_eval as AE
    from pysph.sph.basic_equations import SummationDensity
    from pysph.sph.integrator_cython_helper import IntegratorCythonHelper
    from pysph.sph.integrator import EulerIntegrator
    from pysph.sph.integrator_step import EulerStep
    import types
    out = dict(unit="misspelt array names", obligations=0, discharged=0,
               undecided=[])
    uni = ["x", "y", "z", "h", "m", "rho", "u", "v", "w"]
    full = SSet(uni, dict((u, z3.BoolVal(True)) for u in uni))
    arrays = [ModelArray("fluid", full), ModelArray("solid", full)]
    cases = [("dest", dict(dest="fluidd", sources=["fluid"]), "fluidd"),
             ("source", dict(dest="fluid", sources=["fluid", "sold"]),
              "sold")]
    stats = Stats()
    with patched_globals(AE, dict(list=sym_list, set=sym_set,
                                  print=lambda *a, **k: None)):
        for what, kw, bad in cases:
            def run(c, kw=kw):
                try:
                    AE.AccelerationEval(arrays, [SummationDensity(**kw)],
                                        kernel=None, backend="cython")
                except RuntimeError as e:
                    return str(e)
                return None
            for path in explore(run, stats=stats):
                out["obligations"] += 1
                msg = path.value
                if msg and bad in msg and "SummationDensity" in msg:
                    out["discharged"] += 1
                else:
                    out.setdefault("harness_errors", []).append(
                        "misspelt %s not rejected with a naming error: %r"
                        % (what, msg))
    # stepper keyword that is not an array
    helper = types.SimpleNamespace(
        object=types.SimpleNamespace(particle_arrays=arrays), known_types={})
    out["obligations"] += 1
    try:
        import io
        import contextlib
        with contextlib.redirect_stdout(io.StringIO()):
            IntegratorCythonHelper(EulerIntegrator(fluidd=EulerStep()),
                                   helper)
        out.setdefault("harness_errors", []).append(
            "stepper for a non-existent array accepted")
    except RuntimeError as e:
        if "fluidd" in str(e):
            out["discharged"] += 1
        else:
            out.setdefault("harness_errors", []).append(
                "stepper error does not name the array: %s" % e)
    out["stats"] = stats.as_dict()
    return out


REPLAY_STEP = common.REPLAY_HEADER + '''
common.use_repo_with_build()
import importlib, io, contextlib, types, collections
from pysph.base.utils import get_particle_array
from pysph.sph.integrator_cython_helper import IntegratorCythonHelper
from pysph.sph.integrator import Integrator
mod, cls, method, have, missing = %(mod)r, %(cls)r, %(method)r, %(have)r, %(missing)r
S = getattr(importlib.import_module(mod), cls)
arrays = {}
for an, names in have.items():
    pa = get_particle_array(name=an, x=[0.0])
    for p in list(pa.properties.keys()):
        if p not in names and p not in ("tag", "gid", "pid"):
            pa.remove_property(p)
    for p in names:
        if p not in pa.properties:
            pa.add_property(p)
    arrays[an] = pa
integ = Integrator(**dict((an, S()) for an in have))
helper = IntegratorCythonHelper.__new__(IntegratorCythonHelper)
helper.object = integ
helper._particle_arrays = arrays
helper.acceleration_eval_helper = types.SimpleNamespace(known_types=collections.defaultdict(lambda: types.SimpleNamespace(type="double*")))
bad = None
try:
    with contextlib.redirect_stdout(io.StringIO()):
        helper.get_array_declarations(method)
    if missing:
        bad = "stepper %%s.%%s accepted although %%s is missing" %% (cls, method, missing)
except RuntimeError as e:
    if cls not in str(e) or (missing and not any(m in str(e) for (_, m) in missing)):
        bad = "error does not name stepper and missing names: %%s" %% e
sys.exit(common.replay_exit(bad))
'''


def unit_steppers(modname):
    common.use_repo_with_build()
    import pysph.sph.integrator_cython_helper as IH
    from pysph.sph.integrator_step import IntegratorStep
    from pysph.sph.integrator import Integrator
    from pysph.sph.equation import get_array_names
    stats = Stats()
    out = dict(unit="steppers of %s" % modname, obligations=0, discharged=0,
               undecided=[], classes=[], skipped=[])
    try:
        mod = importlib.import_module(modname)
    except Exception as e:
        out["skipped"].append("import failed %r" % (e,))
        out["stats"] = stats.as_dict()
        return out
    ncex = [0]
    for n, S in inspect.getmembers(mod, inspect.isclass):
        if S.__module__ != modname or not issubclass(S, IntegratorStep) \
                or S is IntegratorStep:
            continue
        try:
            stepper = S()
        except Exception as e:
            out["skipped"].append("%s: %s" % (n, str(e)[:60]))
            continue
        methods = [m for m in dir(S) if re.match(r"^(initialize|stage\d+)$",
                                                 m)]
        out["classes"].append(n)
        for method in methods:
            args = inspect.getfullargspec(getattr(stepper, method)).args
            s, d = get_array_names(args)
            uni = set(x[2:] for x in s | d) | set(["zz_unrelated"])

            def run(c, S=S, method=method, uni=uni):
                # two arrays with the same stepper class, driven through the
                # real get_array_declarations (the code-generation path)
                import collections
                pd = SSet.fresh("d", uni)
                pe = SSet.fresh("e", uni)
                c.assume_unchecked(z3.PbLe(
                    [(z3.Not(m), 1) for m in list(pd.mem.values()) +
                     list(pe.mem.values())], MAX_MISSING_STEPPER))
                helper = IH.IntegratorCythonHelper.__new__(
                    IH.IntegratorCythonHelper)
                helper.object = Integrator(d=S(), e=S())
                helper._particle_arrays = {"d": ModelArray("d", pd),
                                           "e": ModelArray("e", pe)}
                helper.acceleration_eval_helper = types.SimpleNamespace(
                    known_types=collections.defaultdict(
                        lambda: types.SimpleNamespace(type="double*")))
                try:
                    helper.get_array_declarations(method)
                except RuntimeError as e:
                    return "raised", str(e), (pd, pe)
                reads = []
                for an in ("d", "e"):
                    txt = helper.get_array_setup(an, method)
                    reads += [(an, x) for x in sorted(_names(txt, "dst"))]
                return "ok", reads, (pd, pe)

            with patched_globals(IH, dict(set=sym_set, list=sym_list,
                                          print=lambda *a, **k: None)):
                for path in explore(run, stats=stats, max_paths=4000):
                    if path.exc is not None:
                        out.setdefault("harness_errors", []).append(
                            "%s.%s raised %r" % (n, method, path.exc))
                        break
                    kind, info, (pd, pe) = path.value
                    mem = {"d": pd, "e": pe}
                    out["obligations"] += 1
                    if kind == "ok":
                        claim = z3.And(*[mem[a]._m(x) for a, x in info]) \
                            if info else z3.BoolVal(True)
                    else:
                        # message lists names of ONE array: all must be
                        # really missing there, and the stepper is named
                        mm = re.search(r"properties:\n\t(.*)\n", info)
                        listed = [x.strip() for x in mm.group(1).split(",")] \
                            if mm else []
                        ma = re.search(r"particle array '(\w+)'", info)
                        an = ma.group(1) if ma else "d"
                        claim = z3.And(z3.BoolVal(n in info and
                                                  len(listed) > 0),
                                       *[z3.Not(mem[an]._m(x))
                                         for x in listed])
                    r, model = path.ctx.prove(claim, timeout_ms=10000)
                    if r == "unsat":
                        out["discharged"] += 1
                    elif r == "sat":
                        ncex[0] += 1
                        have = dict((an, [u for u in ss.universe
                                          if model_value(model, ss.mem[u])])
                                    for an, ss in mem.items())
                        missing = [(a, x) for a, x in (info if kind == "ok"
                                                       else [])
                                   if x not in have[a]]
                        p = common.write_replay(
                            PID, "step_%s_%s_%d" % (n, method, ncex[0]),
                            REPLAY_STEP % dict(mod=modname, cls=n,
                                               method=method, have=have,
                                               missing=missing))
                        common.triage(PID, out, "%s.%s: stepper check" %
                                      (n, method), p,
                                      dict(unit="stepper", kind=kind))
                    else:
                        out["undecided"].append("%s.%s" % (n, method))
    out["stats"] = stats.as_dict()
    out["sample"] = dict(unit=out["unit"], classes=out["classes"][:6])
    return out


def main():
    t = common.tier()
    common.use_repo_with_build()
    import pysph.sph.acceleration_eval as AE
    import pysph.sph.integrator_cython_helper as IH
    from pysph.sph import equation as EQ
    rep = common.Report(
        PID, "other",
        "symbolic execution of the real AccelerationEval constructor / "
        "check_equation_array_properties and IntegratorCythonHelper."
        "_check_arrays_for_properties on arrays whose name sets are solver "
        "variables (one Bool per name); z3 decides 'constructed => every "
        "dereferenced name present' and 'error names really missing names' "
        "on every path")
    rep.functions = [common.func_ref(f) for f in (
        AE.check_equation_array_properties, AE.AccelerationEval.__init__,
        EQ.get_arrays_used_in_equation, EQ.Group.get_array_names,
        EQ.Group._setup_precomputed,
        IH.IntegratorCythonHelper._check_arrays_for_properties,
        IH.IntegratorCythonHelper._check_integrator_steppers,
        IH.IntegratorCythonHelper.get_array_setup)]
    mods = QUICK_MODULES if t == "quick" else all_modules()
    rep.bounds = dict(modules=mods, max_missing_names_per_run=MAX_MISSING,
                      arrays="destination d (also a source) and a second "
                      "source s", universe="every name the class "
                      "dereferences + one unrelated name")
    rep.assumptions = [
        "ParticleArray is a model exposing name/properties/constants whose "
        "key sets are symbolic; set/list/print are shadowed in the modules "
        "under test",
        "dereferenced names are read off the real get_dest_array_setup / "
        "get_src_array_setup / get_array_setup text",
        "at most %d names are missing per run (cardinality constraint)" %
        MAX_MISSING,
        "constructor arguments of equation classes are filled with 1.0 / "
        "dim=2; classes that cannot be instantiated this way are listed as "
        "skipped"]
    rep.outside = ["GPU helpers", "start_idx/stop_idx given as property "
                   "names", "rejection of complete problems (not part of the "
                   "statement)"]
    units = [("vf.props.c20", "unit_module", dict(modname=m)) for m in mods]
    smods = ["pysph.sph.integrator_step"] if t == "quick" else \
        [m for m in all_modules()]
    units += [("vf.props.c20", "unit_steppers", dict(modname=m))
              for m in smods]
    units.append(("vf.props.c20", "unit_misspelt", {}))
    common.run_units(rep, units)
    return rep.finish()


if __name__ == "__main__":
    sys.exit(main())
