"""C10 -- the solver loop reaches tf and honours the output schedule.

The real Solver.__init__ + Solver.solve (with _get_timestep,
_compute_timestep, _damp_timestep, _dump_output_if_needed,
_get_solver_data) run on exact-real proxies for dt, tf, the requested
output times and the adaptive step sequence; the integrator, dump_output,
the progress bar and the callbacks are logging stubs.  The loop is bounded
by the solver's own max_steps (= K), so no unwinding assumption is needed;
claims about reaching tf apply on the paths that leave the loop by time."""
import sys
import types
import itertools
from fractions import Fraction

import numpy
import z3

from vf import common
from vf.symx import (explore, patched_globals, real, SReal, Stats, to_real,
                     model_value, rv, MATH_TABLE, is_sym)

PID = "C10"


class _Bar(object):
    def __init__(self, *a, **k):
        pass

    def update(self, *a, **k):
        pass

    def finish(self, *a, **k):
        pass


def build(S, cfg, dt, tf, outs, adapt_vals, log):
    """Construct the real Solver with logging stubs."""
    calls = [0]
    holder = {}

    class Integ(object):
        def initial_acceleration(self, t, dt_):
            log.append(("init_acc",))

        def step(self, t, dt_):
            log.append(("step", t, dt_, holder["s"]._damping_factor))

        def compute_time_step(self, dt_, cfl):
            i = calls[0]
            calls[0] += 1
            v = adapt_vals[i] if i < len(adapt_vals) else None
            log.append(("nominal", dt_ if v is None else v))
            return v

    oat = numpy.empty(len(outs), dtype=object)
    oat[:] = outs
    s = S.Solver(dim=1, integrator=Integ(), kernel=None, dt=dt, tf=tf,
                 n_damp=cfg["n_damp"], adaptive_timestep=cfg["adaptive"],
                 output_at_times=oat if len(outs) else (), pfreq=cfg["pfreq"])
    holder["s"] = s
    s.rank = 1                      # skips '%f' formatting of the debug log
    s.max_steps = cfg["K"]
    s.particles = []
    s.dump_output = lambda: log.append(
        ("dump", s.t, s.count, dict(s._get_solver_data())))
    s.barrier = lambda: None
    s.pre_step_callbacks = [lambda slv: log.append(("pre", slv.count))]
    s.post_step_callbacks = [lambda slv: log.append(("post", slv.count))]
    return s


REPLAY = common.REPLAY_HEADER + '''
common.use_repo_with_build()
import numpy, math
from pysph.solver import solver as S
from vf.props.c10 import build, judge_concrete
cfg = %(cfg)r
dt, tf, outs, adapt = %(dt)r, %(tf)r, %(outs)r, %(adapt)r
log = []
S.ProgressBar = __import__("vf.props.c10", fromlist=["_Bar"])._Bar
s = build(S, cfg, dt, tf, outs, adapt, log)
s.solve(show_progress=False)
bad = judge_concrete(cfg, dt, tf, outs, log, s)
for e in log:
    if e[0] in ("step", "dump"):
        print(e)
sys.exit(common.replay_exit(bad))
'''


def judge_concrete(cfg, dt, tf, outs, log, s):
    """The property on a concrete run (floats), with the code's own epsilon
    generously widened: only clear violations count."""
    eps = 1e-9 * max(tf, 1e-300)
    steps = [e for e in log if e[0] == "step"]
    dumps = [e for e in log if e[0] == "dump"]
    by_time = s.count < cfg["K"] or abs(s.t - tf) <= eps
    if by_time and abs(s.t - tf) > eps:
        return "ended at t=%r, tf=%r" % (s.t, tf)
    for (_, t, d, _f) in steps:
        if not d > 0:
            return "non-positive step %r at t=%r" % (d, t)
    # nominal step bound
    noms = [e[1] for e in log if e[0] == "nominal"]
    if not dumps or dumps[0][1] != 0 or dumps[0][2] != 0:
        return "no dump at the start"
    if by_time and (abs(dumps[-1][1] - tf) > eps):
        return "no dump at the end"
    for T in outs:
        if not (0 < T < tf):
            continue
        for (_, t, d, _f) in steps:
            if t < T - 1e-7 * tf and t + d > T + 1e-7 * tf:
                return "step from %r to %r jumps over the requested output " \
                       "time %r" % (t, t + d, T)
        reached = s.t >= T + 1e-7 * tf
        if reached and not any(abs(e[1] - T) <= eps for e in dumps):
            return "no dump at the requested time %r" % T
    cnt = 0
    for (_, t, d, _f) in steps:
        cnt += 1
        if cnt % cfg["pfreq"] == 0 and cnt < len(steps):
            if not any(e[2] == cnt for e in dumps):
                return "no dump at iteration %d (pfreq=%d)" % (cnt,
                                                              cfg["pfreq"])
    if not cfg["adaptive"]:
        for (_, t, d, f) in steps:
            if d > dt * f + 1.0001e-9 * tf:
                return "step %r at t=%r exceeds the damped nominal %r" % (
                    d, t, dt * f)
        for e in dumps:
            if e[1] + dt <= tf * (1 - 1e-7) and \
                    abs(e[3]["dt"] - dt) > 1.0001e-9 * tf:
                return "solver_data dt=%r at t=%r, nominal %r" % (
                    e[3]["dt"], e[1], dt)
    pre = [e for e in log if e[0] == "pre"]
    post = [e for e in log if e[0] == "post"]
    if len(pre) != len(steps) or len(post) != len(steps):
        return "callbacks %d/%d for %d steps" % (len(pre), len(post),
                                                 len(steps))
    return None


def unit_solve(cfg, timeout_ms=30000, deadline_s=600):
    common.use_repo_with_build()
    from pysph.solver import solver as S
    stats = Stats()
    out = dict(unit="solve %s" % (cfg,), obligations=0, discharged=0,
               undecided=[], exits={})
    findings = common.load_findings(PID)
    dt, tf = real("dt"), real("tf")
    outs = [real("T%d" % i) for i in range(cfg["nout"])]
    adapt = []
    for i, a in enumerate(cfg.get("adapt", ())):
        adapt.append(real("adt%d" % i) if a else None)
    EPS = Fraction(float(S.EPSILON))
    ncex = [0]
    seen_known = set()

    def run(c):
        c.assume_unchecked(dt.t > 0)
        c.assume_unchecked(tf.t > 0)
        # requested times are separated from 0, from tf and from each other
        # by clearly more than the solver's epsilon (1e-6 tf)
        sep = rv(Fraction(1, 10**6)) * tf.t
        prev = z3.RealVal(0)
        for T in outs:
            c.assume_unchecked(T.t >= prev + sep)
            prev = T.t
        if outs:
            if cfg.get("last_is_tf"):
                c.assume_unchecked(outs[-1].t == tf.t)
            else:
                c.assume_unchecked(outs[-1].t <= tf.t - sep)
        for a in adapt:
            if a is not None:
                c.assume_unchecked(a.t > 0)
        # keep the run inside the bound K most of the time (not required for
        # soundness: the loop is cut by max_steps = K anyway)
        log = []
        s = build(S, cfg, dt, tf, outs, adapt, log)
        s.solve(show_progress=False)
        return log, s

    def cex(what, model, cls):
        ncex[0] += 1
        d = dict(cfg=cfg, dt=float(model_value(model, dt.t)),
                 tf=float(model_value(model, tf.t)),
                 outs=[float(model_value(model, T.t)) for T in outs],
                 adapt=[None if a is None else float(model_value(model, a.t))
                        for a in adapt])
        p = common.write_replay(PID, "solve_%d_%s_%d" % (
            abs(hash(str(sorted(cfg.items())))) % 10**6, cls, ncex[0]),
            REPLAY % d)
        return common.triage(PID, out, "%s: %s" % (out["unit"], what), p,
                             dict(unit="solve", cls=cls), findings,
                             soft=True)

    def claim(c, what, term, cls):
        if cls in seen_known:
            return
        out["obligations"] += 1
        r, model = c.prove(term, timeout_ms=timeout_ms)
        if r == "unsat":
            out["discharged"] += 1
        elif r == "sat":
            if cex(what, model, cls) == "known":
                seen_known.add(cls)
                out["discharged"] += 1
        else:
            out["undecided"].append(what)

    table = dict(MATH_TABLE)
    table["ProgressBar"] = _Bar
    with patched_globals(S, table):
        k = 0
        for path in explore(run, stats=stats, deadline_s=deadline_s,
                            feas_timeout_ms=5000):
            k += 1
            c = path.ctx
            if path.exc is not None:
                out.setdefault("harness_errors", []).append(
                    "solve raised %r" % (path.exc,))
                continue
            log, s = path.value
            steps = [e for e in log if e[0] == "step"]
            dumps = [e for e in log if e[0] == "dump"]
            tend = to_real(s.t)
            count = s.count
            eps_end = rv(EPS * max(count, 1)) * tf.t
            # did the loop stop because the time was reached?
            by_time_t = z3.Not(tf.t - tend > eps_end)
            if count < cfg["K"]:
                by_time = z3.BoolVal(True)
            else:
                by_time = by_time_t
            out["exits"]["count=%d" % count] = \
                out["exits"].get("count=%d" % count, 0) + 1
            tag = "path %d (%d steps)" % (k, len(steps))
            # 1. reaches tf
            M6 = rv(Fraction(1, 10**6)) * tf.t     # "clearly over" margin
            M9 = rv(Fraction(1, 10**9)) * tf.t     # "at" tolerance (>= eps)
            claim(c, tag + ": ends at tf (within 1e-9 tf)",
                  z3.Implies(by_time, z3.And(tend - tf.t <= M9,
                                             tf.t - tend <= M9)), "end")
            # 2. strictly increasing time
            if steps:
                claim(c, tag + ": every step is positive",
                      z3.And(*[to_real(e[2]) > 0 for e in steps]), "positive")
            # 3. dumps at start and end
            first_ok = bool(dumps) and not is_sym(dumps[0][1]) and \
                dumps[0][1] == 0 and dumps[0][2] == 0
            if not first_ok:
                claim(c, tag + ": first event is a dump at t=0",
                      z3.BoolVal(False), "start_dump")
            last = dumps[-1]
            claim(c, tag + ": last dump is at the end time",
                  to_real(last[1]) == tend, "end_dump")
            # 4. requested times: never stepped over, dumped when reached
            for i, T in enumerate(outs):
                if cfg.get("last_is_tf") and i == len(outs) - 1:
                    continue
                for j, e in enumerate(steps):
                    t0, d0 = to_real(e[1]), to_real(e[2])
                    claim(c, tag + ": step %d does not jump over requested "
                          "time T%d" % (j, i),
                          z3.Not(z3.And(t0 < T.t - M6, t0 + d0 > T.t + M6)),
                          "skip_first_step" if j == 0 else "skip")
                # if the run got to T (end time >= T) there is a dump at T
                if dumps:
                    near = []
                    for e in dumps:
                        near.append(z3.And(to_real(e[1]) - T.t <= M9,
                                           T.t - to_real(e[1]) <= M9))
                    claim(c, tag + ": a dump exists at requested time T%d"
                          % i, z3.Implies(tend >= T.t + M6, z3.Or(*near)),
                          "missing_dump")
            # 5. pfreq dumps
            for cnt in range(1, len(steps) + 1):
                if cnt % cfg["pfreq"] == 0:
                    has = any(e[2] == cnt for e in dumps)
                    if not has:
                        # allowed only if this iteration ended at tf
                        tcnt = to_real(steps[cnt - 1][1]) + \
                            to_real(steps[cnt - 1][2])
                        claim(c, tag + ": dump at iteration %d (pfreq)" % cnt,
                              z3.And(tcnt - tf.t < M9, tf.t - tcnt < M9),
                              "pfreq")
            # 6. recorded dt is the nominal undamped one (except where the
            #    next step is the one stretched/shortened to land on tf),
            #    and no step exceeds the nominal dt by more than epsilon
            if not cfg["adaptive"]:
                claim(c, tag + ": solver_data['dt'] is the nominal dt at "
                      "every dump not adjacent to the final landing step",
                      z3.And(*[z3.Implies(
                          to_real(e[1]) + dt.t <= tf.t - M6,
                          z3.And(to_real(e[3]["dt"]) - dt.t <= M9,
                                 dt.t - to_real(e[3]["dt"]) <= M9))
                          for e in dumps]),
                      "recorded_dt")
                claim(c, tag + ": no step exceeds the (damped) nominal dt "
                      "(+1e-9 tf)",
                      z3.And(*[to_real(e[2]) <= dt.t * to_real(e[3]) + M9
                               for e in steps])
                      if steps else z3.BoolVal(True), "step_bound")
            # 7. callbacks exactly once per step, in order
            seq = [e[0] for e in log if e[0] in ("pre", "step", "post")]
            if seq != ["pre", "step", "post"] * len(steps):
                claim(c, tag + ": pre/step/post exactly once per step",
                      z3.BoolVal(False), "callbacks")
    if not out["exits"]:
        out.setdefault("harness_errors", []).append("vacuity: no path")
    out["stats"] = stats.as_dict()
    out["sample"] = dict(unit=out["unit"], exits=out["exits"])
    return out


def configs(t):
    cfgs = []
    Ks = (2, 3) if t == "quick" else (2, 3, 4)
    for K in Ks:
        for pfreq in (1, 2):
            for nout in (0, 1, 2):
                if K == 4 and nout == 2:
                    continue
                cfgs.append(dict(K=K, pfreq=pfreq, nout=nout, n_damp=0,
                                 adaptive=False))
        cfgs.append(dict(K=K, pfreq=1, nout=1, n_damp=0, adaptive=False,
                         last_is_tf=True))
        cfgs.append(dict(K=K, pfreq=3, nout=1, n_damp=2, adaptive=False))
        cfgs.append(dict(K=K, pfreq=1, nout=1, n_damp=3, adaptive=False))
        cfgs.append(dict(K=K, pfreq=2, nout=1 if K > 2 else 0, n_damp=0,
                         adaptive=True, adapt=(1,) * (K + 2)))
        cfgs.append(dict(K=K, pfreq=2, nout=0, n_damp=0, adaptive=True,
                         adapt=(1, 0, 1, 0, 1, 0)[:K + 2]))
    return cfgs


def main():
    t = common.tier()
    common.use_repo_with_build()
    from pysph.solver import solver as S
    rep = common.Report(
        PID, "other",
        "bounded symbolic execution of the real Solver.__init__/solve with "
        "logging stubs for integrator/output/callbacks; dt, tf, requested "
        "output times and adaptive steps are exact-real symbols; z3 decides "
        "every claim on every path")
    rep.functions = [common.func_ref(getattr(S.Solver, f)) for f in
                     ("solve", "_get_timestep", "_compute_timestep",
                      "_damp_timestep", "_dump_output_if_needed",
                      "_get_solver_data", "_get_undamped_timestep")]
    cfgs = configs(t)
    rep.bounds = dict(configurations=cfgs,
                      loop_bound="max_steps = K (the solver's own guard), K "
                      "<= %d" % max(c["K"] for c in cfgs),
                      numeric_domain="exact reals (the IEEE tier of the "
                      "design is not built)")
    rep.assumptions = [
        "floats as reals; EPSILON is the module's float constant taken "
        "exactly", "integrator.step / compute_time_step / "
        "initial_acceleration, dump_output, barrier, ProgressBar and the "
        "callbacks are logging stubs; rank=1 skips the '%f' debug log",
        "requested output times are increasing inside (0, tf) and separated "
        "from 0, tf and each other by at least 1e-6 tf (or the last equals "
        "tf): clusters tighter than the solver's epsilon are outside",
        "'at' a time means within 1e-9 tf, 'jumps over' means by more than "
        "1e-6 tf on both sides (so that solver models replay robustly in "
        "floating point)",
        "damping factors come from numpy.sin on concrete arguments"]
    rep.outside = ["more than K steps (no inductive invariant claimed)",
                   "floating-point rounding of t += dt", "MPI paths",
                   "reorder_particles / execute_commands hooks"]
    units = [("vf.props.c10", "unit_solve", dict(cfg=c)) for c in cfgs]
    common.run_units(rep, units)
    return rep.finish()


if __name__ == "__main__":
    sys.exit(main())
