"""C16 -- inlets and outlets move each particle across exactly once.

The real InletBase.update / OutletBase.update and IOEvaluate.initialize/
loop run on record-list particle arrays holding exact-real positions; the
SPHEvaluator is a stub that applies the real IOEvaluate methods to every
particle of the destination array (documented semantics of a source-less
equation).  One inductive step from an arbitrary pre-state: arbitrary
positions of n<=2(3) particles per array, arbitrary zone reference point
and length, axis-aligned or arbitrary (symbolic) normal."""
import sys
import types

import numpy
import z3

from vf import common, pairsim
from vf.pamodel import PAModel
from vf.symx import (explore, patched_globals, real, SReal, Stats, to_real,
                     model_value, rv, MATH_TABLE, is_sym)

PID = "C16"
PROPS = ("x", "y", "z", "u", "p", "ioid", "disp", "uid")
COPY = ("x", "y", "z", "u", "p", "uid")


class StubEvaluator(object):
    """applies the real hook methods of source-less equations to every
    particle of their destination (all particles: the groups use
    real=False)"""

    def __init__(self, arrays, equations, dim=None, kernel=None,
                 nnps_factory=None, **kw):
        self.arrays = dict((a.name, a) for a in arrays)
        self.groups = equations

    def update(self, *a, **k):
        pass

    def evaluate(self, t=0.0, dt=0.1):
        for g in self.groups:
            for eq in g.equations:
                pa = self.arrays[eq.dest]
                n = pa.get_number_of_particles()
                for meth in ("initialize", "loop"):
                    if not hasattr(eq, meth):
                        continue
                    for i in range(n):
                        ns = _ns(pa, i)
                        pairsim.call(eq, meth, ns)


class _ns(dict):
    def __init__(self, pa, i):
        dict.__init__(self, d_idx=i, t=0.0, dt=0.1)
        self.pa = pa

    def __missing__(self, k):
        if k.startswith("d_"):
            v = self.pa.properties[k[2:]]
            self[k] = v
            return v
        raise KeyError(k)


def make_array(name, n, tag):
    pa = PAModel(name, n, ())
    for p in PROPS:
        if p == "uid":
            pa.add_property(p, default=-1,
                            data=["%s%d" % (tag, i) for i in range(n)])
        elif p == "ioid":
            pa.add_property(p, default=0, data=[9] * n)   # junk pre-state
        elif p == "disp":
            pa.add_property(p, default=0.0,
                            data=[real("%s_dispjunk_%d" % (tag, i))
                                  for i in range(n)])
        else:
            pa.add_property(p, default=0.0,
                            data=[real("%s_%s_%d" % (tag, p, i))
                                  for i in range(n)])
    return pa


def snapshot(pa):
    return [dict((p, pa.properties[p][i]) for p in PROPS)
            for i in range(pa.get_number_of_particles())]


NORMALS = {"+x": (1.0, 0.0, 0.0), "-x": (-1.0, 0.0, 0.0),
           "+y": (0.0, 1.0, 0.0), "-z": (0.0, 0.0, -1.0)}


def zone(normal):
    ref = [real("ref_%s" % q) for q in "xyz"]
    if normal == "sym":
        n = [real("n_%s" % q) for q in "xyz"]
    else:
        n = list(NORMALS[normal])
    return ref, n, real("zone_len")


REPLAY = common.REPLAY_HEADER + '''
common.use_repo_with_build()
import numpy as np
from pysph.base.utils import get_particle_array
from pysph.base.kernels import CubicSpline
from pysph.sph.bc.inlet_outlet_manager import InletBase, OutletBase, InletInfo, OutletInfo
kind, ref, nrm, length, family = %(kind)r, %(ref)r, %(nrm)r, %(length)r, %(family)r
if family == "hybrid":
    from pysph.sph.bc.hybrid.inlet import Inlet as InletBase
if family == "mirror":
    from pysph.sph.bc.mirror.outlet import Outlet as OutletBase
A, F = %(A)r, %(F)r      # zone array particles, fluid particles: dicts x y z u p
def mk(name, P, tag):
    empty = not P
    if empty:
        P = [dict(x=0.0, y=0.0, z=0.0, u=0.0, p=0.0)]
    pa = get_particle_array(name=name, x=[p["x"] for p in P], y=[p["y"] for p in P], z=[p["z"] for p in P],
                            u=[p["u"] for p in P], p=[p["p"] for p in P], h=1.0, m=1.0, rho=1.0)
    pa.add_property("ioid", type="int"); pa.add_property("disp"); pa.add_property("uid", type="int")
    pa.uid[:] = [tag*100 + i for i in range(len(P))]
    pa.add_constant("uref", [1.0])
    if empty:
        pa.remove_particles([0])
    return pa
za, fl = mk("zone", A, 1), mk("fluid", F, 2)
before = dict(zone=[(int(u), x, y, z) for u, x, y, z in zip(za.uid, za.x, za.y, za.z)],
              fluid=[(int(u), x, y, z) for u, x, y, z in zip(fl.uid, fl.x, fl.y, fl.z)])
K = CubicSpline(dim=3)
if kind == "inlet":
    info = InletInfo("zone", normal=nrm, refpoint=ref); info.length = length; info.dx = 0.1
    obj = InletBase(za, fl, info, K, 3)
else:
    info = OutletInfo("zone", normal=nrm, refpoint=ref, props_to_copy=["x", "y", "z", "u", "p", "uid"]); info.length = length
    obj = OutletBase(za, fl, info, K, 3)
obj.update(0.0, 0.1, 1)
disp = lambda x, y, z: (x-ref[0])*nrm[0] + (y-ref[1])*nrm[1] + (z-ref[2])*nrm[2]
bad = None
zu, fu = [int(u) for u in za.uid], [int(u) for u in fl.uid]
print("before", before); print("after zone", list(zip(zu, za.x, za.y, za.z)), "fluid", list(zip(fu, fl.x, fl.y, fl.z)))
tol = 1e-6
if kind == "inlet":
    for (u, x, y, z) in before["zone"]:
        d = disp(x, y, z)
        if abs(d - tol) < 1e-9: continue
        entered = d <= tol
        cnt = fu.count(u)
        if cnt != (1 if entered else 0):
            bad = "inlet particle %%d (disp %%r) appears %%d times in the fluid" %% (u, d, cnt)
        if zu.count(u) != 1:
            bad = "inlet particle %%d occurs %%d times in the inlet" %% (u, zu.count(u))
        else:
            i = zu.index(u)
            for got, old, nc, nm in ((za.x[i], x, nrm[0], "x"), (za.y[i], y, nrm[1], "y"), (za.z[i], z, nrm[2], "z")):
                exp = old + (length*nc if entered else 0.0)
                if abs(got - exp) > 1e-9*(1 + abs(exp)):
                    bad = "inlet particle %%d %%s=%%r expected %%r" %% (u, nm, got, exp)
    for (u, x, y, z) in before["fluid"]:
        if fu.count(u) != 1: bad = "fluid particle %%d occurs %%d times" %% (u, fu.count(u))
    if len(fu) != len(before["fluid"]) + sum(1 for (u, x, y, z) in before["zone"] if disp(x, y, z) <= tol):
        bad = bad or "fluid count %%d" %% len(fu)
else:
    for (u, x, y, z) in before["fluid"]:
        d = disp(x, y, z)
        if abs(d - tol) < 1e-9 or d > 900: continue
        left = d > tol
        if fu.count(u) != (0 if left else 1) or zu.count(u) != (1 if left else 0):
            bad = "fluid particle %%d (disp %%r): %%d in fluid, %%d in outlet" %% (u, d, fu.count(u), zu.count(u))
    for (u, x, y, z) in before["zone"]:
        d = disp(x, y, z) - length
        if abs(d - tol) < 1e-9: continue
        gone = d > tol
        if zu.count(u) != (0 if gone else 1) or fu.count(u) != 0:
            bad = "outlet particle %%d (disp-length %%r): %%d in outlet, %%d in fluid" %% (u, d, zu.count(u), fu.count(u))
sys.exit(common.replay_exit(bad))
'''


def _vals(model, snap):
    out = []
    for d in snap:
        out.append(dict((k, float(model_value(model, to_real(d[k]))))
                        for k in ("x", "y", "z", "u", "p")))
    return out


FAMILIES = dict(
    base=("pysph.sph.bc.inlet_outlet_manager", "InletBase", "OutletBase"),
    hybrid=("pysph.sph.bc.hybrid", "inlet.Inlet", None),
    mirror=("pysph.sph.bc.mirror", None, "outlet.Outlet"))


def _family_class(family, which):
    import importlib
    pkg, icls, ocls = FAMILIES[family]
    name = icls if which == "inlet" else ocls
    if "." in name:
        mod, name = name.split(".")
        return getattr(importlib.import_module(pkg + "." + mod), name)
    return getattr(importlib.import_module(pkg), name)


def unit_inlet(n_in, n_f, normal, two_updates=False, timeout_ms=20000,
               family="base"):
    common.use_repo_with_build()
    import pysph.sph.bc.inlet_outlet_manager as M
    import pysph.tools.sph_evaluator as SE
    ICls = _family_class(family, "inlet")
    stats = Stats()
    out = dict(unit="inlet%s n_in=%d n_fluid=%d normal=%s%s" % (
        "" if family == "base" else " (%s family)" % family,
        n_in, n_f, normal, " two updates" if two_updates else ""),
        obligations=0, discharged=0, undecided=[])
    ref, nrm, length = zone(normal)
    ncex = [0]

    def run(c):
        c.assume_unchecked(length.t > 0)
        if normal == "sym":
            c.assume_unchecked(z3.Sum([to_real(q) * to_real(q)
                                       for q in nrm]) == 1)
        inlet, fluid = make_array("inlet", n_in, "i"), \
            make_array("fluid", n_f, "f")
        before = (snapshot(inlet), snapshot(fluid))

        def off_edge():
            # measure-zero knife edge of IOEvaluate's two tolerance tests
            # (disp - length == 1e-6 exactly) is excluded
            for pi in snapshot(inlet):
                d = z3.Sum([(to_real(pi["xyz"[j]]) - to_real(ref[j])) *
                            to_real(nrm[j]) for j in range(3)])
                c.assume_unchecked(d - length.t != rv(0.000001))
        off_edge()
        info = types.SimpleNamespace(refpoint=ref, normal=nrm, length=length,
                                     dx=0.1)
        if family == "hybrid":
            import numpy
            for pa_, nm in ((inlet, "i"), (fluid, "f")):
                pa_.constants["uref"] = numpy.array([real("uref_" + nm)],
                                                    dtype=object)
        obj = ICls(inlet, fluid, info, None, 3)
        obj.update(0.0, 0.1, 1)
        mid = (snapshot(inlet), snapshot(fluid))
        if two_updates:
            # arbitrary motion of the inlet particles in between
            for i in range(inlet.get_number_of_particles()):
                for q in "xyz":
                    inlet.properties[q][i] = inlet.properties[q][i] + \
                        real("move_%s_%d" % (q, i))
            off_edge()
            obj.update(0.1, 0.1, 1)
        return before, mid, (snapshot(inlet), snapshot(fluid)), inlet, fluid

    tab = dict(MATH_TABLE)
    SE.SPHEvaluator = StubEvaluator
    with patched_globals(M, tab):
        k = 0
        for path in explore(run, stats=stats, max_paths=4000):
            k += 1
            c = path.ctx
            if path.exc is not None:
                out.setdefault("harness_errors", []).append(
                    "inlet update raised %r" % (path.exc,))
                continue
            before, mid, after, inlet, fluid = path.value
            stages = [(before, mid)] + ([(mid, after)] if two_updates else [])
            for si, (b, a) in enumerate(stages):
                (bi, bf), (ai, af) = b, a
                claims = []
                tol = rv(0.000001)
                for pi in bi:
                    if si == 1:
                        x0 = [to_real(pi[q]) + z3.Real("move_%s_%d" % (
                            q, int(pi["uid"][1:]))) for q in "xyz"]
                    else:
                        x0 = [to_real(pi[q]) for q in "xyz"]
                    disp = z3.Sum([(x0[j] - to_real(ref[j])) * to_real(nrm[j])
                                   for j in range(3)])
                    entered = disp <= tol
                    copies = [q for q in af if q["uid"] == pi["uid"]]
                    orig = [q for q in ai if q["uid"] == pi["uid"]]
                    ncopy = len(copies) - sum(1 for q in bf
                                              if q["uid"] == pi["uid"])
                    claims.append(("inlet particle %s is copied to the fluid "
                                   "exactly when it left the zone" %
                                   pi["uid"],
                                   z3.If(entered, z3.BoolVal(ncopy == 1),
                                         z3.BoolVal(ncopy == 0))))
                    claims.append(("inlet original %s stays in the inlet "
                                   "array exactly once" % pi["uid"],
                                   z3.BoolVal(len(orig) == 1)))
                    if len(orig) == 1:
                        shift = [z3.If(entered, to_real(length) *
                                       to_real(nrm[j]), z3.RealVal(0))
                                 for j in range(3)]
                        claims.append((
                            "inlet original %s is recycled one zone length "
                            "upstream (else untouched)" % pi["uid"],
                            z3.And(*[to_real(orig[0]["xyz"[j]]) == x0[j] +
                                     shift[j] for j in range(3)])))
                    if ncopy == 1:
                        cp = copies[-1]
                        claims.append((
                            "copy of %s carries the copied properties" %
                            pi["uid"], z3.And(*(
                                [to_real(cp["xyz"[j]]) == x0[j]
                                 for j in range(3)] +
                                [to_real(cp[q]) == to_real(pi[q])
                                 for q in ("u", "p")]))))
                for pf in bf:
                    same = [q for q in af if q["uid"] == pf["uid"]]
                    nb = sum(1 for q in bf if q["uid"] == pf["uid"])
                    inl = sum(1 for q in bi if q["uid"] == pf["uid"])
                    if inl == 0:
                        claims.append(("fluid particle %s is kept exactly "
                                       "once, unchanged" % pf["uid"],
                                       z3.And(z3.BoolVal(len(same) == nb),
                                              *[to_real(same[0][q]) ==
                                                to_real(pf[q]) for q in
                                                ("x", "y", "z", "u", "p")]
                                              ) if same else
                                       z3.BoolVal(False)))
                claims.append(("no particle appears from nowhere",
                               z3.BoolVal(set(q["uid"] for q in af + ai) <=
                                          set(q["uid"] for q in bf + bi))))
                for what, cl in claims:
                    out["obligations"] += 1
                    r, model = c.prove(cl, timeout_ms=timeout_ms)
                    if r == "unsat":
                        out["discharged"] += 1
                    elif r == "sat":
                        ncex[0] += 1
                        p = common.write_replay(
                            PID, "inlet_%d_%d_%s_%d" % (n_in, n_f,
                                                        normal.strip("+-") +
                                                        str(len(normal)),
                                                        ncex[0]),
                            REPLAY % dict(
                                kind="inlet", family=family,
                                ref=[float(model_value(model, to_real(q)))
                                     for q in ref],
                                nrm=[float(model_value(model, to_real(q)))
                                     if is_sym(q) else q for q in nrm],
                                length=float(model_value(model, length.t)),
                                A=_vals(model, before[0]),
                                F=_vals(model, before[1])))
                        common.triage(PID, out, "%s: update %d: %s" % (
                            out["unit"], si + 1, what), p,
                            dict(unit="%s.update" % ICls.__name__),
                            soft=True)
                    else:
                        out["undecided"].append(what)
    out["stats"] = stats.as_dict()
    out["sample"] = dict(unit=out["unit"], paths=k)
    return out


def unit_outlet(n_out, n_f, normal, timeout_ms=20000, family="base"):
    common.use_repo_with_build()
    import pysph.sph.bc.inlet_outlet_manager as M
    import pysph.tools.sph_evaluator as SE
    OCls = _family_class(family, "outlet")
    stats = Stats()
    out = dict(unit="outlet%s n_out=%d n_fluid=%d normal=%s" % (
        "" if family == "base" else " (%s family)" % family, n_out, n_f,
        normal), obligations=0, discharged=0, undecided=[])
    ref, nrm, length = zone(normal)
    ncex = [0]

    def run(c):
        c.assume_unchecked(length.t > 0)
        c.assume_unchecked(length.t < 900)
        if normal == "sym":
            c.assume_unchecked(z3.Sum([to_real(q) * to_real(q)
                                       for q in nrm]) == 1)
        outlet, fluid = make_array("outlet", n_out, "o"), \
            make_array("fluid", n_f, "f")
        # fluid particles are less than the evaluator's default maxdist
        # (1000) past the outlet plane
        for pf in snapshot(fluid):
            d = z3.Sum([(to_real(pf["xyz"[j]]) - to_real(ref[j])) *
                        to_real(nrm[j]) for j in range(3)])
            c.assume_unchecked(d < 900)
        before = (snapshot(outlet), snapshot(fluid))
        info = types.SimpleNamespace(refpoint=ref, normal=nrm, length=length,
                                     props_to_copy=list(COPY))
        obj = OCls(outlet, fluid, info, None, 3)
        obj.update(0.0, 0.1, 1)
        return before, (snapshot(outlet), snapshot(fluid))

    SE.SPHEvaluator = StubEvaluator
    with patched_globals(M, dict(MATH_TABLE)):
        k = 0
        for path in explore(run, stats=stats, max_paths=4000):
            k += 1
            c = path.ctx
            if path.exc is not None:
                out.setdefault("harness_errors", []).append(
                    "outlet update raised %r" % (path.exc,))
                continue
            (bo, bf), (ao, af) = path.value
            tol = rv(0.000001)
            claims = []

            def disp(p):
                return z3.Sum([(to_real(p["xyz"[j]]) - to_real(ref[j])) *
                               to_real(nrm[j]) for j in range(3)])
            for pf in bf:
                left = disp(pf) > tol
                inf = [q for q in af if q["uid"] == pf["uid"]]
                ino = [q for q in ao if q["uid"] == pf["uid"]]
                claims.append(("fluid particle %s moves to the outlet "
                               "exactly once iff it crossed the plane" %
                               pf["uid"],
                               z3.If(left, z3.BoolVal(len(inf) == 0 and
                                                      len(ino) == 1),
                                     z3.BoolVal(len(inf) == 1 and
                                                len(ino) == 0))))
                for q in inf + ino:
                    claims.append(("particle %s keeps its copied properties"
                                   % pf["uid"],
                                   z3.And(*[to_real(q[a]) == to_real(pf[a])
                                            for a in ("x", "y", "z", "u",
                                                      "p")])))
            for po in bo:
                gone = disp(po) - length.t > tol
                ino = [q for q in ao if q["uid"] == po["uid"]]
                inf = [q for q in af if q["uid"] == po["uid"]]
                claims.append(("outlet particle %s is deleted iff it left "
                               "the far end" % po["uid"],
                               z3.If(gone, z3.BoolVal(len(ino) == 0),
                                     z3.BoolVal(len(ino) == 1)) if not inf
                               else z3.BoolVal(False)))
                for q in ino:
                    claims.append(("outlet particle %s unchanged" %
                                   po["uid"],
                                   z3.And(*[to_real(q[a]) == to_real(po[a])
                                            for a in ("x", "y", "z", "u",
                                                      "p")])))
            claims.append(("no particle appears from nowhere",
                           z3.BoolVal(set(q["uid"] for q in af + ao) <=
                                      set(q["uid"] for q in bf + bo))))
            for what, cl in claims:
                out["obligations"] += 1
                r, model = c.prove(cl, timeout_ms=timeout_ms)
                if r == "unsat":
                    out["discharged"] += 1
                elif r == "sat":
                    ncex[0] += 1
                    p = common.write_replay(
                        PID, "outlet_%d_%d_%s_%d" % (
                            n_out, n_f, normal.strip("+-") +
                            str(len(normal)), ncex[0]),
                        REPLAY % dict(
                            kind="outlet", family=family,
                            ref=[float(model_value(model, to_real(q)))
                                 for q in ref],
                            nrm=[float(model_value(model, to_real(q)))
                                 if is_sym(q) else q for q in nrm],
                            length=float(model_value(model, length.t)),
                            A=_vals(model, bo), F=_vals(model, bf)))
                    common.triage(PID, out, "%s: %s" % (out["unit"], what),
                                  p, dict(unit="OutletBase.update"),
                                  soft=True)
                else:
                    out["undecided"].append(what)
    out["stats"] = stats.as_dict()
    out["sample"] = dict(unit=out["unit"], paths=k)
    return out


def main():
    t = common.tier()
    common.use_repo_with_build()
    import pysph.sph.bc.inlet_outlet_manager as M
    rep = common.Report(
        PID, "other",
        "symbolic execution of the real InletBase.update / OutletBase.update "
        "with the real IOEvaluate hooks on record-list arrays holding "
        "exact-real positions (one inductive step from an arbitrary "
        "pre-state); z3 decides the per-particle accounting on every path")
    rep.functions = [common.func_ref(f) for f in (
        M.InletBase.update, M.OutletBase.update, M.IOEvaluate.initialize,
        M.IOEvaluate.loop, M.InletBase.initialize, M.OutletBase.initialize,
        _family_class("hybrid", "inlet").update,
        _family_class("mirror", "outlet").update)]
    units = []
    sizes = [(1, 0), (1, 1), (2, 1)] if t == "quick" else \
        [(1, 0), (1, 1), (2, 1), (2, 2), (3, 1)]
    normals = ["+x", "-x", "+y", "-z", "sym"]
    for (a, f) in sizes:
        for nrm in normals:
            units.append(("vf.props.c16", "unit_inlet",
                          dict(n_in=a, n_f=f, normal=nrm)))
            units.append(("vf.props.c16", "unit_outlet",
                          dict(n_out=a, n_f=max(f, 1), normal=nrm)))
    units.append(("vf.props.c16", "unit_inlet",
                  dict(n_in=1, n_f=0, normal="+x", two_updates=True)))
    units.append(("vf.props.c16", "unit_inlet",
                  dict(n_in=2, n_f=1, normal="-x", two_updates=True)))
    # the two families that carry their own copy of update()
    for nrm in normals:
        for (a, f) in sizes[:3]:
            units.append(("vf.props.c16", "unit_inlet",
                          dict(n_in=a, n_f=f, normal=nrm, family="hybrid")))
            units.append(("vf.props.c16", "unit_outlet",
                          dict(n_out=a, n_f=max(f, 1), normal=nrm,
                               family="mirror")))
    rep.bounds = dict(array_sizes=sizes, normals=normals,
                      updates="one update from an arbitrary pre-state "
                      "(inductive step) + two consecutive updates with "
                      "arbitrary motion in between",
                      families="InletBase/OutletBase.update (used by the "
                      "characteristic, donothing and mod_donothing families "
                      "and the mirror inlet / hybrid outlet) and the two "
                      "overriding copies: hybrid Inlet.update and mirror "
                      "Outlet.update (without ghost array)")
    rep.assumptions = [
        "ParticleArray is a record-list model (extract_particles, "
        "remove_particles, attribute views) whose conformance is C06's "
        "subject; SPHEvaluator is a stub applying the real IOEvaluate "
        "initialize/loop to every particle of the destination",
        "zone length > 0; unit normal (axis aligned, or symbolic with "
        "|n| = 1); outlet: particles less than 900 past the plane (the "
        "fluid's IOEvaluate uses the default maxdist 1000) and length < 900",
        "particle identity is a concrete uid property copied with the "
        "particle",
        "the measure-zero knife edge disp - length == 1e-6 of IOEvaluate's "
        "two tolerance tests is excluded"]
    rep.outside = ["GPU branches", "ghost arrays of the inlet",
                   "interaction with the integrator beyond update(time, dt, "
                   "stage)", "more than two consecutive updates"]
    common.run_units(rep, units)
    return rep.finish()


if __name__ == "__main__":
    sys.exit(main())
