"""C17 -- spatial re-ordering is a pure permutation of whole particles.

Lowered (cy2py) NNPS.spatially_order_particles and
LinkedListNNPS.get_spatially_ordered_indices (after the lowered update /
binning on symbolic positions), plus the index-copy loops of the z-order,
stratified-SFC and octree variants, run on model arrays with a plain and a
strided property and concrete tag patterns; z3/path enumeration decides:
indices are a permutation, whole particles stay together, Local-tagged
particles stay ahead of the others."""
import sys
import os
import itertools

import z3

from vf import common, nnpsmodel as NM
from vf.symx import (explore, Stats, real, to_real, rv, is_sym, model_value)

PID = "C17"

REPLAY = common.REPLAY_HEADER + '''
common.use_repo_with_build()
import numpy as np
from pysph.base.utils import get_particle_array
from pysph.base.nnps import LinkedListNNPS
dim, xs, ys, hs, tags = %(dim)d, %(xs)r, %(ys)r, %(hs)r, %(tags)r
pa = get_particle_array(name="a", x=xs, y=ys, h=hs)
pa.add_property("v3", stride=3)
pa.v3[:] = np.arange(3*len(xs)) + 100.0
pa.add_property("uid", type="int"); pa.uid[:] = np.arange(len(xs))
pa.tag[:] = tags
pa.align_particles()
before = sorted((int(u), float(x), int(t), tuple(pa.get("v3", only_real_particles=False)[3*i:3*i+3])) for i, (u, x, t) in enumerate(zip(pa.get("uid", only_real_particles=False), pa.get("x", only_real_particles=False), pa.get("tag", only_real_particles=False))))
nn = LinkedListNNPS(dim=dim, particles=[pa], radius_scale=2.0)
nn.spatially_order_particles(0)
uid = pa.get("uid", only_real_particles=False); x = pa.get("x", only_real_particles=False); t = pa.get("tag", only_real_particles=False); v3 = pa.get("v3", only_real_particles=False)
after = sorted((int(u), float(xx), int(tt), tuple(v3[3*i:3*i+3])) for i, (u, xx, tt) in enumerate(zip(uid, x, t)))
print("tags after:", list(t), "num_real_particles:", pa.num_real_particles)
bad = None
if before != after:
    bad = "particles changed: %%r -> %%r" %% (before, after)
else:
    nr = pa.num_real_particles
    if any(tt != 0 for tt in t[:nr]) or any(tt == 0 for tt in t[nr:]) or nr != sum(1 for tt in t if tt == 0):
        bad = "after re-ordering tags are %%r with num_real_particles=%%d: real particles are not the first ones" %% (list(t), nr)
sys.exit(common.replay_exit(bad))
'''


REPLAY_SOLVER = common.REPLAY_HEADER + '''
common.use_repo_with_build()
import types
from pysph.solver.solver import Solver
log = []
s = Solver.__new__(Solver)
s.particles = [object(), object()]
s.nnps = types.SimpleNamespace(spatially_order_particles=lambda i: log.append(("order", i)), update=lambda: log.append(("update",)))
s.reorder_particles()
print(log)
sys.exit(common.replay_exit(None if log == [("order", 0), ("order", 1), ("update",)] else "reorder_particles did %r" % (log,)))
'''


def unit_linked_list(dim, n, tags, deadline_s=150):
    common.use_repo()
    stats = Stats()
    out = dict(unit="LinkedListNNPS reorder dim=%d n=%d tags=%s" % (
        dim, n, list(tags)), obligations=0, discharged=0, undecided=[],
        outside=0)
    M = NM.base_module()
    findings = common.load_findings(PID)
    ncex = [0]

    def run(c):
        xs = [real("x%d" % i) for i in range(n)]
        ys = [real("y%d" % i) if dim > 1 else 0.0 for i in range(n)]
        hs = [real("h%d" % i) for i in range(n)]
        for h in hs:
            c.assume_unchecked(z3.And(h.t > 0, h.t <= rv(0.5)))
        c.assume_unchecked(hs[0].t == rv(0.5))       # cell size 1.0
        for v in xs + [y for y in ys if is_sym(y)]:
            c.assume_unchecked(z3.And(v.t >= 0, v.t <= 3))
        pa = NM.RecPA("a", dict(
            x=list(xs), y=list(ys), z=[0.0] * n, h=list(hs), gid=[0] * n,
            tag=list(tags), uid=list(range(n)),
            v3=[real("v%d_%d" % (i, k)) for i in range(n)
                for k in range(3)]), stride=dict(v3=3))
        before = pa.particles()
        nn = NM.linked_list(M, [pa], dim, 2.0, 1.0)
        nn.update()
        idx = NM.SymArray()
        nn.get_spatially_ordered_indices(0, idx)
        indices = [int(i) for i in idx.data]
        nn.spatially_order_particles(0)
        return before, pa.particles(), indices, pa.num_real_particles, \
            (xs, ys, hs)

    for path in explore(run, stats=stats, max_paths=20000, fork_minmax=True,
                        deadline_s=deadline_s):
        c = path.ctx
        if isinstance(path.exc, RuntimeError):
            out["outside"] += 1
            continue
        if path.exc is not None:
            out.setdefault("harness_errors", []).append(
                "lowered code raised %r" % (path.exc,))
            continue
        before, after, indices, nreal, (xs, ys, hs) = path.value
        problems = []
        out["obligations"] += 1
        if sorted(indices) != list(range(n)):
            problems.append(("perm", "index list %r is not a permutation of "
                             "0..%d" % (indices, n - 1)))
        # whole particles stay together and none is lost or duplicated:
        # matched through the identity property uid
        bu = dict((int(p["uid"][0]), p) for p in before)
        au = [int(p["uid"][0]) for p in after]
        if sorted(au) != sorted(bu):
            problems.append(("lost", "particle identities after re-ordering "
                             "%r" % (au,)))
        else:
            for i, u in enumerate(au):
                for k in bu[u]:
                    a, b = after[i][k], bu[u][k]
                    if len(a) != len(b) or any(
                            not _same(x, y) for x, y in zip(a, b)):
                        problems.append(("torn", "property %s of slot %d is "
                                         "not that of particle %d" % (k, i,
                                                                      u)))
        tg = [int(p["tag"][0]) for p in after]
        nloc = sum(1 for t in tg if t == 0)
        if nreal != nloc or any(t != 0 for t in tg[:nreal]):
            problems.append(("align", "tags after re-ordering %r with "
                             "num_real_particles=%d" % (tg, nreal)))
        if not problems:
            out["discharged"] += 1
            continue
        kind, what = problems[0]
        if ncex[0] >= 4:
            continue
        if c.reachable() != "sat":
            out["undecided"].append(what)
            continue
        m = c.last_model_solver.model()
        ncex[0] += 1
        p = common.write_replay(PID, "ll_d%d_n%d_%s_%d" % (
            dim, n, "".join(map(str, tags)), ncex[0]), REPLAY % dict(
                dim=dim, xs=[float(model_value(m, x.t)) for x in xs],
                ys=[float(model_value(m, y.t)) if is_sym(y) else 0.0
                    for y in ys],
                hs=[float(model_value(m, h.t)) for h in hs],
                tags=list(tags)))
        common.triage(PID, out, "%s: %s" % (out["unit"], what), p,
                      dict(unit="spatially_order_particles", kind=kind),
                      findings, soft=True)
    out["stats"] = stats.as_dict()
    out["sample"] = dict(unit=out["unit"])
    return out


def _same(a, b):
    if is_sym(a) or is_sym(b):
        return z3.eq(z3.simplify(to_real(a)), z3.simplify(to_real(b)))
    return a == b


REPLAY_COPY = common.REPLAY_HEADER + '''
common.use_repo_with_build()
import numpy as np
from pysph.base.utils import get_particle_array
import pysph.base.nnps as N
from cyarray.carray import LongArray
rng = np.random.RandomState(3)
a = get_particle_array(name="a", x=rng.rand(40), y=rng.rand(40), z=rng.rand(40), h=0.1)
b = get_particle_array(name="b", x=rng.rand(17), y=rng.rand(17), z=rng.rand(17), h=0.1)
nn = getattr(N, %(cls)r)(dim=3, particles=[a, b], radius_scale=2.0)
bad = None
for ctx in ((0, 0), (1, 1), (0, 1)):
    nn.set_context(*ctx)
    for i, n in ((0, 40), (1, 17)):
        idx = LongArray()
        nn.get_spatially_ordered_indices(i, idx)
        got = sorted(int(v) for v in idx.get_npy_array())
        if got != list(range(n)):
            bad = "context %%r: ordered indices of array %%d are not a permutation of 0..%%d: %%r" %% (ctx, i, n - 1, got[:50])
sys.exit(common.replay_exit(bad))
'''


def unit_copy_loops():
    """z-order / stratified SFC / octree: the ordered index list is a copy of
    the algorithm's sorted particle-id array (a permutation by contract)"""
    common.use_repo()
    import types
    stats = Stats()
    out = dict(unit="pids copy loops (z_order, stratified_sfc, octree)",
               obligations=0, discharged=0, undecided=[])
    M = NM.base_module()
    reported = set()
    for cls in ("ZOrderNNPS", "StratifiedSFCNNPS", "OctreeNNPS"):
        name = cls + ".get_spatially_ordered_indices"
        try:
            fn = M.load(name)
        except Exception as e:
            out.setdefault("harness_errors", []).append(
                "%s not encodable: %r" % (name, e))
            continue
        for perm in itertools.permutations(range(3)):
            out["obligations"] += 1
            pa = NM.RecPA("a", dict(x=[0.0] * 3, y=[0.0] * 3, z=[0.0] * 3,
                                    h=[1.0] * 3, gid=[0] * 3, tag=[0] * 3))
            pb = NM.RecPA("b", dict(x=[0.0] * 5, y=[0.0] * 5, z=[0.0] * 5,
                                    h=[1.0] * 5, gid=[0] * 5, tag=[0] * 5))
            other = [4, 3, 2, 1, 0]
            trees = [types.SimpleNamespace(num_particles=5, pids=other),
                     types.SimpleNamespace(num_particles=3, pids=list(perm))]
            # the search context points at array 0 (the *other* array): the
            # ordered indices of array 1 must still come from array 1
            me = types.SimpleNamespace(
                pa_wrappers=[NM.Wrapper(pb), NM.Wrapper(pa)],
                pids=[other, list(perm)], tree=trees, current_pids=other,
                current_tree=trees[0], src_index=0, dst_index=0)
            idx = NM.SymArray()
            idx.set_data([7, 7])           # stale content must be dropped
            try:
                fn(me, 1, idx)
                got = [int(i) for i in idx.data]
            except Exception as e:
                got = "raised %r" % (e,)
            if got == list(perm):
                out["discharged"] += 1
            elif ("copy", cls) not in reported:
                reported.add(("copy", cls))
                p = common.write_replay(PID, "copy_%s" % cls,
                                        REPLAY_COPY % dict(cls=cls))
                common.triage(PID, out, "%s.get_spatially_ordered_indices("
                              "1) returns %r for the sorted pids %r of array "
                              "1 (search context on array 0)" % (
                                  cls, got, list(perm)), p,
                              dict(unit=name))
    out["stats"] = stats.as_dict()
    return out


def unit_reorder_then_update():
    """Solver.reorder_particles re-orders every array and then updates"""
    common.use_repo_with_build()
    import types
    from pysph.solver.solver import Solver
    out = dict(unit="Solver.reorder_particles", obligations=1, discharged=0,
               undecided=[])
    log = []
    s = Solver.__new__(Solver)
    s.particles = [object(), object()]
    s.nnps = types.SimpleNamespace(
        spatially_order_particles=lambda i: log.append(("order", i)),
        update=lambda: log.append(("update",)))
    s.reorder_particles()
    if log == [("order", 0), ("order", 1), ("update",)]:
        out["discharged"] = 1
    else:
        p = common.write_replay(PID, "reorder_particles", REPLAY_SOLVER)
        common.triage(PID, out, "Solver.reorder_particles did %r instead of "
                      "re-ordering array 0, array 1 and then updating" %
                      (log,), p, dict(unit="Solver.reorder_particles"))
    out["stats"] = Stats().as_dict()
    return out


def main():
    t = common.tier()
    common.use_repo()
    rep = common.Report(
        PID, "other",
        "lowered Cython of NNPS.spatially_order_particles and "
        "LinkedListNNPS.get_spatially_ordered_indices executed after the "
        "lowered update/binning on exact-real positions; the path explorer "
        "enumerates every cell assignment, per path the index list, the "
        "moved particles and the tag alignment are checked")
    b = os.path.join(common.REPO, "pysph", "base")
    rep.functions = ["%s sha=%s" % (f, common.sha_of(os.path.join(b, f)))
                     for f in ("nnps_base.pyx", "linked_list_nnps.pyx",
                               "z_order_nnps.pyx", "stratified_sfc_nnps.pyx",
                               "octree_nnps.pyx")]
    units = [("vf.props.c17", "unit_copy_loops", {}),
             ("vf.props.c17", "unit_reorder_then_update", {})]
    cfgs = [(1, 2, (0, 0)), (1, 2, (0, 2)), (1, 3, (0, 0, 0)),
            (1, 3, (0, 0, 2)), (1, 3, (0, 2, 2)), (2, 2, (0, 2))]
    if t != "quick":
        cfgs += [(1, 4, (0, 0, 2, 2)), (2, 3, (0, 0, 2)), (2, 3, (0, 1, 2))]
    for dim, n, tags in cfgs:
        units.append(("vf.props.c17", "unit_linked_list",
                      dict(dim=dim, n=n, tags=tags,
                           deadline_s=150 if t == "quick" else 1200)))
    rep.bounds = dict(configurations=[dict(dim=d, n=n, tags=list(tg))
                                      for d, n, tg in cfgs],
                      properties="x, y, z, h, gid, tag, uid (plain) and v3 "
                      "(stride 3)", extent="coordinates in [0, 3], cell size "
                      "1")
    rep.assumptions = [
        "Cython->Python lowering (vf/cy2py.py) and the cyarray / "
        "ParticleArray models (vf/nnpsmodel.py: c_align_array as in cyarray) "
        "are trusted", "arrays are aligned on entry (Local tags first)",
        "z-order / stratified-SFC / octree: the sorted pids array is a "
        "permutation by the algorithm's contract; only the copy loop is "
        "executed"]
    rep.outside = ["cell-indexing / octree internals", "exactness of the "
                   "queries after the following update (C01)"]
    common.run_units(rep, units)
    return rep.finish()


if __name__ == "__main__":
    sys.exit(main())
