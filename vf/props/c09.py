"""C09 -- pair-symmetric momentum equations conserve linear (and, for the
central-force terms, angular) momentum; summation density is positive.

For each listed equation class the real `loop` (after `initialize`) runs
twice inside one symbolic path: destination a / source b and destination b
/ source a.  Pre-computed symbols come from the real code blocks of
equation.py; the kernel is the abstract radial kernel justified by C08."""
import sys
import inspect
import importlib

import z3

from vf import common
from vf.symx import (explore, patched_globals, real, SReal, Stats, to_real,
                     model_value, rv, MATH_TABLE, is_sym, boolean)
from vf import pairsim

PID = "C09"

# module, class, constructor kwargs (besides dest/sources), central force?
CLASSES = [
    ("pysph.sph.wc.basic", "MomentumEquation", dict(c0=1.0), True),
    ("pysph.sph.wc.basic", "MomentumEquation",
     dict(c0=1.0, tensile_correction=True), True),
    ("pysph.sph.wc.basic", "MomentumEquationDeltaSPH",
     dict(rho0=1.0, c0=1.0), True),
    ("pysph.sph.wc.basic", "PressureGradientUsingNumberDensity", {}, True),
    ("pysph.sph.basic_equations", "MonaghanArtificialViscosity", {}, True),
    ("pysph.sph.wc.transport_velocity", "MomentumEquationPressureGradient",
     dict(pb=0.0), True),
    ("pysph.sph.wc.transport_velocity", "MomentumEquationViscosity",
     dict(nu=1.0), False),
    ("pysph.sph.wc.transport_velocity", "MomentumEquationArtificialViscosity",
     dict(c0=1.0), True),
    ("pysph.sph.wc.transport_velocity", "MomentumEquationArtificialStress",
     {}, False),
    ("pysph.sph.wc.edac", "MomentumEquation", dict(c0=1.0), False),
    ("pysph.sph.wc.edac", "MomentumEquationPressureGradient", dict(pb=0.0),
     True),
    ("pysph.sph.wc.viscosity", "LaminarViscosity", dict(nu=1.0), False),
    ("pysph.sph.wc.viscosity", "LaminarViscosityDeltaSPH",
     dict(dim=2, rho0=1.0, nu=1.0), True),
    ("pysph.sph.wc.viscosity", "MonaghanSignalViscosityFluids",
     dict(alpha=1.0, h=1.0), True),
    ("pysph.sph.wc.viscosity", "ClearyArtificialViscosity",
     dict(dim=2), True),
    ("pysph.sph.gas_dynamics.basic", "Monaghan92Accelerations", {}, True),
    ("pysph.sph.gas_dynamics.basic", "ADKEAccelerations",
     dict(alpha=1.0, beta=1.0, g1=0.0, g2=0.0, k=1.0, eps=0.5), True),
    ("pysph.sph.gas_dynamics.basic", "MPMAccelerations", {}, True),
    ("pysph.sph.solid_mech.basic", "MomentumEquationWithStress", {}, False),
]
# Equations whose documented form is not pair-symmetric without an extra
# assumption (DESIGN.md C09): checked under that assumption.
SPECIAL = {
    ("pysph.sph.wc.edac", "MomentumEquationPressureGradient"):
        ("pavg_a == pavg_b (the EDAC pressure gradient subtracts the "
         "destination's average pressure by design)", ("pavg",)),
    ("pysph.sph.solid_mech.basic", "MomentumEquationWithStress"):
        ("the array constants wdeltap and n are those of the destination: "
         "both arrays carry the same values (same material)",
         ("wdeltap", "n")),
}
POSITIVE = ("m", "rho", "h", "V", "rho0")
ACCS = ("au", "av", "aw")
NOSYM_ATTRS = ("dest", "sources", "name", "var_name", "no_source")
BODY = ("gx", "gy", "gz", "fx", "fy", "fz")


def _symbolise_params(eq, tag):
    """float attributes of the equation object become symbolic reals (body
    forces stay 0, as the property states)."""
    names = []
    for k, v in list(eq.__dict__.items()):
        if k in NOSYM_ATTRS or k.startswith("_"):
            continue
        if k in BODY:
            setattr(eq, k, 0.0)
            continue
        if isinstance(v, float):
            object.__setattr__(eq, k, real("%s_%s" % (tag, k)))
            names.append(k)
    return names


REPLAY = common.REPLAY_HEADER + '''
common.use_repo_with_build()
import numpy as np, importlib
from pysph.base.utils import get_particle_array
from pysph.base.kernels import CubicSpline
from pysph.sph.equation import Group
from pysph.tools.sph_evaluator import SPHEvaluator
mod, cls, kw, params = %(mod)r, %(cls)r, %(kw)r, %(params)r
A, B = %(A)r, %(B)r
C = getattr(importlib.import_module(mod), cls)
import inspect
sig = set()
for meth in ("initialize", "initialize_pair", "loop", "loop_all", "post_loop", "reduce"):
    if hasattr(C, meth):
        sig |= set(a[2:] for a in inspect.getfullargspec(getattr(C, meth)).args if a[:2] in ("d_", "s_") and a not in ("d_idx", "s_idx"))
names = sorted(set(A) | set(B) | sig | set(["x","y","z","u","v","w","h","m","rho","au","av","aw"]))
def mk(name, P):
    pa = get_particle_array(name=name, x=[P.get("x", 0.0)])
    for k in names:
        if k not in pa.properties:
            pa.add_property(k)
        pa.get_carray(k).get_npy_array()[:] = P.get(k, 0.0)
    return pa
pa, pb = mk("a", A), mk("b", B)
eqs = []
for d, s in (("a", "b"), ("b", "a")):
    e = C(dest=d, sources=[s], **kw)
    for k, v in params.items():
        setattr(e, k, v)
    eqs.append(e)
ev = SPHEvaluator(arrays=[pa, pb], equations=[Group(equations=eqs)], dim=3,
                  kernel=CubicSpline(dim=3), backend="cython")
ev.evaluate()
bad = None
tot = 0.0; mag = 1e-300
for c in ("au", "av", "aw"):
    fa, fb = pa.m[0]*getattr(pa, c)[0], pb.m[0]*getattr(pb, c)[0]
    print(c, "m_a a_a =", fa, " m_b a_b =", fb)
    tot = max(tot, abs(fa + fb)); mag = max(mag, abs(fa), abs(fb))
if not np.isfinite(tot) or tot > 1e-8*mag:
    bad = "m_a a_a + m_b a_b = %%r (scale %%r)" %% (tot, mag)
sys.exit(common.replay_exit(bad))
'''


def unit_pair(mod, cls, kw, central, timeout_ms=60000):
    common.use_repo_with_build()
    from pysph.sph.equation import Group
    C = getattr(importlib.import_module(mod), cls)
    stats = Stats()
    out = dict(unit="%s.%s %s" % (mod.split("pysph.sph.")[1], cls, kw),
               obligations=0, discharged=0, undecided=[], formal=0)
    special = SPECIAL.get((mod, cls))
    eq = C(dest="a", sources=["b"], **kw)
    pnames = _symbolise_params(eq, "prm")
    group = Group(equations=[eq])
    kernel = pairsim.RadialKernel()
    ncex = [0]
    module = importlib.import_module(mod)

    def one_run(dtag, stag):
        d = pairsim.Particle(dtag, zero=ACCS)
        s = pairsim.Particle(stag, zero=ACCS)
        ns = pairsim.make_namespace(d, s, kernel)
        if hasattr(eq, "initialize"):
            # accumulators start from what initialize leaves
            pairsim.call(eq, "initialize", ns)
        pairsim.eval_precomputed(group, ns)
        pairsim.call(eq, "loop", ns)
        return d, s

    def run(c):
        # positivity of the usual suspects for both particles
        for tag in ("a", "b"):
            for nm in POSITIVE:
                c.assume_unchecked(z3.Real("%s_%s_0" % (tag, nm)) > 0)
        for nm in pnames:
            c.assume_unchecked(z3.Real("prm_%s" % nm) >= 0)
        if special:
            for nm in special[1]:
                c.assume_unchecked(z3.Real("a_%s_0" % nm) ==
                                   z3.Real("b_%s_0" % nm))
        # canonical pair distance, registered as the root of both orderings
        xs = [(z3.Real("a_%s_0" % k), z3.Real("b_%s_0" % k)) for k in "xyz"]
        r2 = z3.Sum([(p - q) * (p - q) for p, q in xs])
        c.register_root(z3.Real("RIJ_ab"), r2)
        c.assume_unchecked(z3.Real("RIJ_ab") > 0)     # distinct positions
        # an interacting pair: well inside the kernel support
        c.assume_unchecked(2 * z3.Real("RIJ_ab") <=
                           z3.Real("a_h_0") + z3.Real("b_h_0"))
        c.assume_unchecked(z3.Real("DELTAP") > 0)
        da, _ = one_run("a", "b")
        db, _ = one_run("b", "a")
        return da, db

    table = dict(MATH_TABLE)
    with patched_globals(module, table):
        k = 0
        good = 0
        for path in explore(run, stats=stats, feas_timeout_ms=5000,
                            deadline_s=900, fork_minmax=True):
            k += 1
            c = path.ctx
            if isinstance(path.exc, ZeroDivisionError):
                # a divisor (kernel value WDP, rho, ...) is zero: outside
                # the admissible inputs
                out["zero_div_paths"] = out.get("zero_div_paths", 0) + 1
                continue
            if path.exc is not None:
                out.setdefault("harness_errors", []).append(
                    "%s raised %r" % (cls, path.exc))
                continue
            good += 1
            da, db = path.value
            ma, mb = z3.Real("a_m_0"), z3.Real("b_m_0")
            pairs = []
            fa = []
            for comp in ACCS:
                aa = to_real(da.arr(comp)[0])
                ab = to_real(db.arr(comp)[0])
                pairs.append((SReal(ma * aa), SReal(-(mb * ab))))
                fa.append(ma * aa)
            out["obligations"] += 1
            r, model = c.prove_eqs(pairs, timeout_ms=timeout_ms)
            what = "path %d: m_a a_a + m_b a_b = 0" % k
            if r == "unsat":
                out["discharged"] += 1
            elif r == "sat":
                _cex(out, mod, cls, kw, pnames, model, what, ncex, da, db)
            else:
                out["undecided"].append(what)
            if central:
                xij = [z3.Real("a_%s_0" % q) - z3.Real("b_%s_0" % q)
                       for q in "xyz"]
                cross = [(SReal(xij[1] * fa[2]), SReal(xij[2] * fa[1])),
                         (SReal(xij[2] * fa[0]), SReal(xij[0] * fa[2])),
                         (SReal(xij[0] * fa[1]), SReal(xij[1] * fa[0]))]
                out["obligations"] += 1
                r, model = c.prove_eqs(cross, timeout_ms=timeout_ms)
                what = "path %d: (x_a - x_b) x (m_a a_a) = 0" % k
                if r == "unsat":
                    out["discharged"] += 1
                elif r == "sat":
                    _cex(out, mod, cls, kw, pnames, model, what, ncex, da, db,
                         kind="angular")
                else:
                    out["undecided"].append(what)
            out["formal"] += c.formal
    if good == 0:
        out.setdefault("harness_errors", []).append(
            "vacuity: no path reached the claim")
    out["stats"] = stats.as_dict()
    out["sample"] = dict(unit=out["unit"], paths=k,
                         assumption=special[0] if special else "none")
    return out


def _cex(out, mod, cls, kw, pnames, model, what, ncex, da, db, kind="linear"):
    ncex[0] += 1

    def vals(tag):
        d = {}
        for decl in model.decls():
            n = decl.name()
            if n.startswith(tag + "_") and n.endswith("_0"):
                d[n[len(tag) + 1:-2]] = float(model_value(model,
                                                          z3.Real(n)))
        return d
    params = dict((n, float(model_value(model, z3.Real("prm_%s" % n))))
                  for n in pnames)
    p = common.write_replay(PID, "%s_%s_%d" % (cls, kind, ncex[0]),
                            REPLAY % dict(mod=mod, cls=cls, kw=kw,
                                          params=params, A=vals("a"),
                                          B=vals("b")))
    # the replay uses a real kernel; the abstract-kernel model may not
    # transfer, so a non-reproducing model is reported as inconclusive
    common.triage(PID, out, "%s.%s: %s" % (mod, cls, what), p,
                  dict(unit=cls, kind=kind), soft=True)


def unit_density(k_nbrs=2):
    """SummationDensity: rho_a = sum_b m_b W_ab > 0 when the particle sees
    itself (W(0,h) > 0, W >= 0 from C08, m > 0)."""
    common.use_repo_with_build()
    from pysph.sph.basic_equations import SummationDensity
    from pysph.sph.equation import Group
    import pysph.sph.basic_equations as module
    stats = Stats()
    out = dict(unit="SummationDensity k=%d" % k_nbrs, obligations=0,
               discharged=0, undecided=[])
    eq = SummationDensity(dest="a", sources=["a"])
    group = Group(equations=[eq])
    kernel = pairsim.RadialKernel()

    def run(c):
        d = pairsim.Particle("a", zero=())
        ns0 = pairsim.make_namespace(d, d, kernel)
        pairsim.call(eq, "initialize", ns0)
        ws = []
        # neighbours: itself first, then k others
        for j in range(k_nbrs + 1):
            s = d if j == 0 else pairsim.Particle("n%d" % j)
            if j > 0:
                # share the destination's written rho
                pass
            ns = pairsim.make_namespace(d, s, kernel)
            pairsim.eval_precomputed(group, ns)
            pairsim.call(eq, "loop", ns)
            ws.append(to_real(ns["WIJ"]))
            c.assume_unchecked(z3.Real("%s_m_0" % ("a" if j == 0 else
                                                     "n%d" % j)) > 0)
        c.assume_unchecked(z3.Real("a_h_0") > 0)
        for w in ws:
            c.assume_unchecked(w >= 0)       # C08: W >= 0
        c.assume_unchecked(ws[0] > 0)        # C08: W(0, h) > 0
        return d.arr("rho")[0]

    with patched_globals(module, dict(MATH_TABLE)):
        for path in explore(run, stats=stats):
            if path.exc is not None:
                out.setdefault("harness_errors", []).append(
                    "SummationDensity raised %r" % (path.exc,))
                continue
            out["obligations"] += 1
            r, model = path.ctx.prove(to_real(path.value) > 0)
            if r == "unsat":
                out["discharged"] += 1
            elif r == "sat":
                out.setdefault("harness_errors", []).append(
                    "SummationDensity not positive (model %s)" % model)
            else:
                out["undecided"].append("density > 0")
    out["stats"] = stats.as_dict()
    return out


def main():
    t = common.tier()
    common.use_repo_with_build()
    rep = common.Report(
        PID, "other",
        "symbolic execution of the real loop() of each listed momentum "
        "equation for the pair (a,b) and (b,a) with the real precomputed "
        "code blocks and an abstract radial kernel; z3 decides "
        "m_a a_a + m_b a_b = 0 (and x_ab x F = 0) on every path pair")
    for mod, cls, kw, central in CLASSES:
        C = getattr(importlib.import_module(mod), cls)
        rep.functions.append(common.func_ref(C.loop))
    rep.bounds = dict(classes=["%s.%s %s" % (m, c, k) for m, c, k, _ in
                               CLASSES], pair="one destination / one source "
                      "particle (sums over neighbours are linear in pair "
                      "terms)", numeric_domain="exact reals",
                      special_assumptions=dict(("%s.%s" % k, v[0]) for k, v
                                               in SPECIAL.items()))
    rep.assumptions = [
        "kernel abstraction (justified by C08): W = W(rij, h), gradient = "
        "G(rij, h) * xij with uninterpreted W, G, DWDQ, GRADH",
        "neighbour symmetry is C01's acceptance predicate",
        "m, rho, h > 0; equation parameters >= 0; body forces 0; distinct "
        "positions and an interacting pair (0 < RIJ <= HIJ)",
        "RIJ is one registered non-negative root of the canonical |x_a-x_b|^2 "
        "for both orderings (formal identity checked by z3's normaliser)",
        "SummationDensity: W >= 0 and W(0,h) > 0 are taken from C08"]
    rep.outside = ["rounding (the exact identity plus standard error analysis "
                   "gives the 'up to rounding' clause; not encoded)",
                   "equations not listed (boundary/wall equations are not "
                   "pair-symmetric closed sets)"]
    units = [("vf.props.c09", "unit_pair",
              dict(mod=m, cls=c, kw=k, central=ce)) for m, c, k, ce in CLASSES]
    for kk in ((1, 2) if t == "quick" else (1, 2, 3)):
        units.append(("vf.props.c09", "unit_density", dict(k_nbrs=kk)))
    common.run_units(rep, units)
    return rep.finish()


if __name__ == "__main__":
    sys.exit(main())
