"""C14 -- interpolation of particle data obeys its defining formulas
(equation level).  The real hook methods of the interpolation equations in
pysph/tools/interpolator.py run, in the documented order, for one target
point and k source particles from 1-2 arrays, starting from an ARBITRARY
pre-state of the target's scratch properties (so that partial
re-initialisation shows up); kernel values are atoms W(r,h) >= 0."""
import sys
import importlib

import z3

from vf import common, pairsim
from vf.symx import (explore, patched_globals, real, SReal, Stats, to_real,
                     model_value, rv, MATH_TABLE)

PID = "C14"
METHODS = {
    "shepard": "InterpolateFunction",
    "sph": "InterpolateSPH",
    "splash": "SPLASHInterpolateProperty",
    "splash_norm": "SPLASHInterpolatePropertyNormalized",
}
WSYM = {"shepard": "WIJ", "sph": "WIJ", "splash": "WI", "splash_norm": "WJ"}


def run_group(eqs, group, dest, sources, kernel, record=None):
    """documented order for one destination particle: initialize (all
    equations), then per source array, per source particle: precomputed
    symbols, loop (each equation); then post_loop (all equations)."""
    ns0 = pairsim.make_namespace(dest, None, kernel)
    for eq in eqs:
        if hasattr(eq, "initialize"):
            pairsim.call(eq, "initialize", ns0)
    for plist in sources:
        for s in plist:
            ns = pairsim.make_namespace(dest, s, kernel)
            pairsim.eval_precomputed(group, ns)
            if record is not None:
                record.append(dict((k, ns[k]) for k in group.precomputed))
            for eq in eqs:
                if hasattr(eq, "loop"):
                    pairsim.call(eq, "loop", ns)
    for eq in eqs:
        if hasattr(eq, "post_loop"):
            pairsim.call(eq, "post_loop", ns0)


REPLAY = common.REPLAY_HEADER + '''
common.use_repo_with_build()
import numpy as np
from pysph.base.utils import get_particle_array
from pysph.base.kernels import CubicSpline
from pysph.tools.interpolator import Interpolator
method, dim, srcs, tgt, repeat = %(method)r, %(dim)d, %(srcs)r, %(tgt)r, %(repeat)d
arrays = []
for i, plist in enumerate(srcs):
    pa = get_particle_array(name="s%%d" %% i, x=[p["x"] for p in plist], y=[p["y"] for p in plist], z=[p["z"] for p in plist],
                            h=[p["h"] for p in plist], m=[p["m"] for p in plist], rho=[p["rho"] for p in plist], f=[p["f"] for p in plist])
    arrays.append(pa)
# filler particles (out of range of everything) so that the bounding box of
# the sources is a proper 3-D box
pts = [(p["x"], p["y"], p["z"]) for pl in srcs for p in pl] + [(tgt["x"], tgt["y"], tgt["z"])]
hmax = max([p["h"] for pl in srcs for p in pl] + [tgt["h"]])
c = np.array(pts).mean(axis=0); L = np.abs(np.array(pts) - c).max() + 10*hmax
corners = [(c[0]+i*L, c[1]+j*L, c[2]+k*L) for i in (-1, 1) for j in (-1, 1) for k in (-1, 1)]
arrays.append(get_particle_array(name="filler", x=[q[0] for q in corners], y=[q[1] for q in corners], z=[q[2] for q in corners],
                                 h=hmax, m=1.0, rho=1.0, f=0.0))
K = CubicSpline(dim=dim)
ip = Interpolator(arrays, x=[tgt["x"]], y=[tgt["y"]], z=[tgt["z"]], kernel=K, method=method)
ip.pa.h[:] = tgt["h"]
res = []
for r in range(repeat):
    if method == "order1":
        res.append([float(ip.interpolate("f", comp=c)) for c in range(dim + 1)])
    else:
        res.append([float(ip.interpolate("f"))])
print("results per evaluation:", res)
# documented value with the same kernel
W = lambda r, h: K.kernel([0, 0, 0], r, h)
num = den = sph = 0.0
fs = []
for plist in srcs:
    for p in plist:
        r = ((tgt["x"]-p["x"])**2 + (tgt["y"]-p["y"])**2 + (tgt["z"]-p["z"])**2)**0.5
        hij = 0.5*(tgt["h"] + p["h"])
        w = {"shepard": W(r, hij), "sph": W(r, hij), "splash": W(r, tgt["h"]), "splash_norm": W(r, p["h"]), "order1": W(r, hij)}[method]
        V = p["m"]/p["rho"]
        if w > 0: fs.append(p["f"])
        if method == "shepard":
            num += w*p["f"]; den += w
        else:
            num += V*w*p["f"]; den += V*w
bad = None
if any(abs(a - b) > 1e-9*(abs(a) + abs(b) + 1e-300) for ra in res[1:] for a, b in zip(res[0], ra)):
    bad = "repeated evaluation changes the result: %%r" %% (res,)
elif method in ("shepard", "splash_norm"):
    exp = num/den if den > 1e-12 else 0.0
    if abs(res[0][0] - exp) > 1e-9*(abs(exp) + 1e-300):
        bad = "got %%r, documented %%r" %% (res[0][0], exp)
elif method in ("sph", "splash"):
    if abs(res[0][0] - num) > 1e-9*(abs(num) + 1e-300):
        bad = "got %%r, documented %%r" %% (res[0][0], num)
sys.exit(common.replay_exit(bad))
'''


REPLAY_ORDER1 = common.REPLAY_HEADER + '''
common.use_repo_with_build()
import numpy as np, itertools
from pysph.base.utils import get_particle_array
from pysph.base.kernels import CubicSpline
from pysph.tools.interpolator import Interpolator
# canonical non-degenerate configuration: a 4x4x4 lattice (spacing 0.5 h)
# carrying the linear field f = 1 + 2x - 3y + 0.5z, one off-lattice target
dim = %(dim)d
g = np.arange(4)*0.5 - 0.75
pts = np.array(list(itertools.product(g, g, g)))
if dim < 3: pts[:, 2] = 0.0
if dim < 2: pts[:, 1] = 0.0
pts = np.unique(pts, axis=0)
coef = np.array([2.0, -3.0, 0.5])
f = 1.0 + pts.dot(coef)
pa = get_particle_array(name="s0", x=pts[:, 0], y=pts[:, 1], z=pts[:, 2], h=1.0, m=0.5**dim, rho=1.0, f=f)
tgt = np.array([0.1, -0.05, 0.07]); tgt[dim:] = 0.0
ip = Interpolator([pa], x=[tgt[0]], y=[tgt[1]], z=[tgt[2]], kernel=CubicSpline(dim=dim), method="order1")
ip.pa.h[:] = 1.0
res = [[float(ip.interpolate("f", comp=c)) for c in range(dim + 1)] for r in range(3)]
exp = [1.0 + tgt.dot(coef)] + list(coef[:dim])
print("evaluations:", res); print("linear field  :", exp)
bad = None
for r in res:
    if any(abs(a - b) > 1e-7*(1 + abs(b)) for a, b in zip(r, exp)):
        bad = "order1 does not reproduce the linear field/gradient: %%r vs %%r (all evaluations %%r)" %% (r, exp, res)
        break
sys.exit(common.replay_exit(bad))
'''


REPLAY_THRESHOLD = common.REPLAY_HEADER + '''
common.use_repo_with_build()
import numpy as np
from pysph.base.utils import get_particle_array
from pysph.base.kernels import CubicSpline
from pysph.tools.interpolator import Interpolator
method = %(method)r
# one source barely inside the support of the target: 0 < W <= 1e-12
K = CubicSpline(dim=3)
r = 2.0 - 1e-4
pa = get_particle_array(name="s0", x=[r, 30.0, -30.0, 30.0], y=[0.0, 30.0, -30.0, -30.0], z=[0.0, 30.0, 30.0, -30.0], h=1.0, m=1.0, rho=1.0, f=[7.0, 0.0, 0.0, 0.0])
ip = Interpolator([pa], x=[0.0], y=[0.0], z=[0.0], kernel=K, method=method)
ip.pa.h[:] = 1.0
got = float(ip.interpolate("f"))
w = K.kernel([0, 0, 0], r, 1.0)
print("weight", w, "interpolated", got, "weighted mean", 7.0)
bad = None
if 0 < w <= 1e-12 and abs(got - 7.0) > 1e-9:
    bad = "sum of weights %%r <= 1e-12: returned %%r instead of the weighted mean 7.0" %% (w, got)
sys.exit(common.replay_exit(bad))
'''


def _particle_vals(model, tag, names):
    d = {}
    for n in names:
        d[n] = float(model_value(model, z3.Real("%s_%s_0" % (tag, n))))
    return d


def unit_simple(method, layout, timeout_ms=30000):
    """shepard / sph / splash / splash_norm for source arrays of sizes
    `layout` (tuple of ints)."""
    common.use_repo_with_build()
    import pysph.tools.interpolator as I
    from pysph.sph.equation import Group
    stats = Stats()
    out = dict(unit="%s sources=%s" % (method, layout), obligations=0,
               discharged=0, undecided=[])
    kernel = pairsim.RadialKernel()
    names = ["s%d" % i for i in range(len(layout))]
    eq = getattr(I, METHODS[method])(dest="interpolate", sources=names)
    group = Group(equations=[eq])
    ncex = [0]

    def mk_sources():
        return [[pairsim.Particle("s%d_%d" % (a, j)) for j in range(n)]
                for a, n in enumerate(layout)]

    def run(c):
        dest = pairsim.Particle("t")          # arbitrary pre-state
        srcs = mk_sources()
        rec = []
        for plist in srcs:
            for s in plist:
                for nm in ("m", "rho", "h"):
                    c.assume_unchecked(to_real(s.arr(nm)[0]) > 0)
        c.assume_unchecked(to_real(dest.arr("h")[0]) > 0)
        run_group([eq], group, dest, srcs, kernel, rec)
        for r in rec:
            c.assume_unchecked(to_real(r[WSYM[method]]) >= 0)   # C08
        first = dest.arr("prop")[0]
        # evaluate again on the state left behind (re-evaluation)
        run_group([eq], group, dest, srcs, kernel)
        second = dest.arr("prop")[0]
        return first, second, rec, srcs

    with patched_globals(I, dict(MATH_TABLE)):
        k = 0
        for path in explore(run, stats=stats):
            k += 1
            c = path.ctx
            if path.exc is not None:
                out.setdefault("harness_errors", []).append(
                    "%s raised %r" % (method, path.exc))
                continue
            first, second, rec, srcs = path.value
            flat = [s for pl in srcs for s in pl]
            ws = [to_real(r[WSYM[method]]) for r in rec]
            fs = [to_real(s.arr("temp_prop")[0]) for s in flat]
            vs = [to_real(s.arr("m")[0]) / to_real(s.arr("rho")[0])
                  for s in flat]
            claims = []
            if method == "shepard":
                den = z3.Sum(ws) if ws else z3.RealVal(0)
                num = z3.Sum([w * f for w, f in zip(ws, fs)]) if ws \
                    else z3.RealVal(0)
                exp = None
            elif method == "splash_norm":
                den = z3.Sum([v * w for v, w in zip(vs, ws)]) if ws \
                    else z3.RealVal(0)
                num = z3.Sum([v * w * f for v, w, f in zip(vs, ws, fs)]) \
                    if ws else z3.RealVal(0)
                exp = None
            else:
                exp = z3.Sum([v * w * f for v, w, f in zip(vs, ws, fs)]) \
                    if ws else z3.RealVal(0)
                den = None
            got = to_real(first)
            thr = rv(1e-12)
            if exp is not None:
                claims.append(("equals its documented sum", got == exp))
            else:
                claims.append(("equals the weighted mean (sum of weights > "
                               "1e-12)", z3.Implies(den > thr,
                                                    got * den == num)))
                claims.append(("zero where no source is in range (all "
                               "weights zero)",
                               z3.Implies(z3.And(*[w == 0 for w in ws])
                                          if ws else z3.BoolVal(True),
                                          got == 0)))
                if ws:
                    claims.append(("THRESHOLD equals the weighted mean when "
                                   "0 < sum of weights <= 1e-12",
                                   z3.Implies(z3.And(den > 0, den <= thr),
                                              got * den == num)))
            claims.append(("re-evaluation gives the same value",
                           to_real(second) == got))
            if method in ("shepard", "splash_norm"):
                cst = z3.Real("const_field")
                allc = z3.And(*[f == cst for f in fs]) if fs else \
                    z3.BoolVal(True)
                claims.append(("constant field reproduced",
                               z3.Implies(z3.And(allc, den > rv(1e-12)),
                                          got == cst)))
            if method == "shepard" and fs:
                # between min and max of the contributing values
                lo = z3.And(*[z3.Implies(w > 0, got <= z3.If(
                    z3.Or(*[z3.And(w2 > 0, f2 >= f) for w2, f2 in
                            zip(ws, fs)]), got, got)) for w, f in
                    zip(ws, fs)])
                ub = z3.Or(*[z3.And(w > 0, got <= f) for w, f in zip(ws, fs)])
                lb = z3.Or(*[z3.And(w > 0, got >= f) for w, f in zip(ws, fs)])
                claims.append(("between min and max of contributing values",
                               z3.Implies(den > rv(1e-12), z3.And(ub, lb))))
            for what, cl in claims:
                out["obligations"] += 1
                r, model = c.prove(cl, timeout_ms=timeout_ms)
                if r == "unsat":
                    out["discharged"] += 1
                elif r == "sat" and what.startswith("THRESHOLD"):
                    ncex[0] += 1
                    p = common.write_replay(
                        PID, "%s_threshold_%d" % (method, ncex[0]),
                        REPLAY_THRESHOLD % dict(method=method))
                    if common.triage(PID, out, "%s %s: %s" % (
                            method, layout, what), p,
                            dict(unit=method, cls="threshold"),
                            soft=True) == "known":
                        out["discharged"] += 1
                elif r == "sat":
                    model = _nice(c, cl, layout) or model
                    _cex(out, method, 3, layout, model, what, ncex, 2)
                else:
                    out["undecided"].append("path %d: %s" % (k, what))
    out["stats"] = stats.as_dict()
    out["sample"] = dict(unit=out["unit"])
    return out


def _nice(c, claim_term, layout):
    """a second model of the same violation with a replayable geometry:
    unit h/m/rho, sources within half a smoothing length of the target,
    off-axis"""
    extra = []
    t = dict((q, z3.Real("t_%s_0" % q)) for q in "xyzh")
    extra.append(t["h"] == 1)
    for q in "xyz":
        extra.append(t[q] == 0)
    k = 0
    for a, n in enumerate(layout):
        for j in range(n):
            k += 1
            tag = "s%d_%d" % (a, j)
            for q in ("h", "m", "rho"):
                extra.append(z3.Real("%s_%s_0" % (tag, q)) == 1)
            for qi, q in enumerate("xyz"):
                extra.append(z3.Real("%s_%s_0" % (tag, q)) ==
                             rv(__import__("fractions").Fraction(
                                 k + qi, 10 * (k + 1))))
    from vf.symx import solve
    r, model = solve(list(c.pc) + extra + [z3.Not(claim_term)], 20000)
    return model if r == "sat" else None


def _cex(out, method, dim, layout, model, what, ncex, repeat):
    ncex[0] += 1
    srcs = []
    for a, n in enumerate(layout):
        pl = []
        for j in range(n):
            tag = "s%d_%d" % (a, j)
            d = _particle_vals(model, tag, ("x", "y", "z", "h", "m", "rho"))
            d["f"] = float(model_value(model,
                                       z3.Real("%s_temp_prop_0" % tag)))
            for q in ("h", "m", "rho"):
                d[q] = d[q] if d[q] > 0 else 1.0
            pl.append(d)
        srcs.append(pl)
    tgt = _particle_vals(model, "t", ("x", "y", "z", "h"))
    tgt["h"] = tgt["h"] if tgt["h"] > 0 else 1.0
    p = common.write_replay(PID, "%s_%s_%d" % (method, "x".join(map(
        str, layout)), ncex[0]), REPLAY % dict(method=method, dim=dim,
                                                srcs=srcs, tgt=tgt,
                                                repeat=repeat))
    # the model fixes abstract kernel values, not positions: the replay with
    # a real kernel may not reproduce -> reported inconclusive, not hidden
    common.triage(PID, out, "%s %s: %s" % (method, layout, what), p,
                  dict(unit=method, what=what), soft=True)


def unit_order1_moments(dim, layout, timeout_ms=30000):
    """SPHFirstOrderApproximation(PreStep): after the loops, from an
    arbitrary pre-state, the moment matrix and the right-hand side equal
    their documented sums; a linear field gives b = M.[p_i, grad p]."""
    common.use_repo_with_build()
    import pysph.tools.interpolator as I
    from pysph.sph.equation import Group
    stats = Stats()
    out = dict(unit="order1 moments dim=%d sources=%s" % (dim, layout),
               obligations=0, discharged=0, undecided=[])
    kernel = pairsim.RadialKernel()
    names = ["s%d" % i for i in range(len(layout))]
    pre = I.SPHFirstOrderApproximationPreStep("interpolate", names, dim=dim)
    fo = I.SPHFirstOrderApproximation("interpolate", names, dim=dim)
    g1, g2 = Group(equations=[pre]), Group(equations=[fo])
    ncex = [0]

    def run(c):
        dest = pairsim.Particle("t")          # arbitrary pre-state
        srcs = [[pairsim.Particle("s%d_%d" % (a, j)) for j in range(n)]
                for a, n in enumerate(layout)]
        for pl in srcs:
            for s in pl:
                for nm in ("m", "rho", "h"):
                    c.assume_unchecked(to_real(s.arr(nm)[0]) > 0)
        c.assume_unchecked(to_real(dest.arr("h")[0]) > 0)
        rec = []
        # group 2: PreStep (initialize + loops), group 3: FirstOrder without
        # its post_loop (the linear solve is checked separately)
        ns0 = pairsim.make_namespace(dest, None, kernel)
        pairsim.call(pre, "initialize", ns0)
        for pl in srcs:
            for s in pl:
                ns = pairsim.make_namespace(dest, s, kernel)
                pairsim.eval_precomputed(g1, ns)
                pairsim.call(pre, "loop", ns)
        pairsim.call(fo, "initialize", ns0)
        for pl in srcs:
            for s in pl:
                ns = pairsim.make_namespace(dest, s, kernel)
                pairsim.eval_precomputed(g2, ns)
                rec.append(dict(WIJ=ns["WIJ"], DWIJ=list(ns["DWIJ"]),
                                XIJ=[to_real(dest.arr(q)[0]) -
                                     to_real(s.arr(q)[0]) for q in "xyz"]))
                pairsim.call(fo, "loop", ns)
        return dest, srcs, rec

    with patched_globals(I, dict(MATH_TABLE)):
        for path in explore(run, stats=stats):
            c = path.ctx
            if path.exc is not None:
                out.setdefault("harness_errors", []).append(
                    "order1 raised %r" % (path.exc,))
                continue
            dest, srcs, rec = path.value
            flat = [s for pl in srcs for s in pl]
            V = [to_real(s.arr("m")[0]) / to_real(s.arr("rho")[0])
                 for s in flat]
            W = [to_real(r["WIJ"]) for r in rec]
            DW = [[to_real(x) for x in r["DWIJ"]] for r in rec]
            X = [r["XIJ"] for r in rec]
            F = [to_real(s.arr("temp_prop")[0]) for s in flat]
            n = len(flat)
            # documented moment matrix (Liu & Liu 2006), row-major 4x4
            M = [[None] * 4 for _ in range(4)]
            for i in range(4):
                for j in range(4):
                    terms = []
                    for q in range(n):
                        a = W[q] if i == 0 else DW[q][i - 1]
                        b = z3.RealVal(1) if j == 0 else -X[q][j - 1]
                        terms.append(a * b * V[q])
                    M[i][j] = z3.Sum(terms)
            B = [z3.Sum([F[q] * (W[q] if i == 0 else DW[q][i - 1]) * V[q]
                         for q in range(n)]) for i in range(4)]
            mom = dest.arr("moment")
            psph = dest.arr("p_sph")
            pairs_m = [(mom[4 * i + j], SReal(M[i][j])) for i in range(4)
                       for j in range(4)]
            # only the dim+1 entries the linear solve reads
            pairs_b = [(psph[i], SReal(B[i])) for i in range(dim + 1)]
            for what, pairs in (("moment matrix equals its documented sums",
                                 pairs_m),
                                ("right-hand side p_sph[0..dim] equals its "
                                 "documented sums (independent of the "
                                 "pre-state)", pairs_b)):
                out["obligations"] += 1
                r, model = c.prove_eqs(pairs, timeout_ms=timeout_ms)
                if r == "unsat":
                    out["discharged"] += 1
                elif r == "sat":
                    ncex[0] += 1
                    p = common.write_replay(
                        PID, "order1_d%d_%s_%d" % (dim, "x".join(map(
                            str, layout)), ncex[0]),
                        REPLAY_ORDER1 % dict(dim=dim))
                    common.triage(PID, out, "order1 dim=%d %s: %s" % (
                        dim, layout, what), p,
                        dict(unit="order1", dim=dim), soft=True)
                else:
                    out["undecided"].append(what)
            # linear field: f_j = p - g.XIJ  =>  B == M.[p, g]
            p0 = z3.Real("lin_p")
            g = [z3.Real("lin_g%d" % i) for i in range(3)]
            subs = []
            for q in range(n):
                fq = p0 - z3.Sum([g[i] * X[q][i] for i in range(3)])
                subs.append((F[q], fq))
            pairs = []
            for i in range(4):
                lhs = z3.substitute(B[i], *subs)
                rhs = M[i][0] * p0 + z3.Sum([M[i][j + 1] * g[j]
                                             for j in range(3)])
                pairs.append((SReal(lhs), SReal(rhs)))
            out["obligations"] += 1
            r, model = c.prove_eqs(pairs, timeout_ms=timeout_ms)
            if r == "unsat":
                out["discharged"] += 1
            else:
                out["undecided"].append("linear field gives b = M.[p, grad]")
    out["stats"] = stats.as_dict()
    out["sample"] = dict(unit=out["unit"])
    return out


def unit_order1_solve(dim, timeout_ms=60000, shard=0, nshards=1):
    """post_loop: with an arbitrary moment matrix M (non-singular leading
    (dim+1)x(dim+1) block) and b = M.v, d_prop[0..dim] == v."""
    common.use_repo_with_build()
    import pysph.tools.interpolator as I
    import pysph.sph.wc.linalg as L
    from vf.props.c13 import det
    stats = Stats()
    out = dict(unit="order1 post_loop dim=%d shard %d/%d" % (dim, shard,
                                                            nshards),
               obligations=0, discharged=0, undecided=[])
    fo = I.SPHFirstOrderApproximation("interpolate", ["s0"], dim=dim)
    kernel = pairsim.RadialKernel()
    n = dim + 1
    v = [z3.Real("v%d" % i) for i in range(n)]

    def run(c):
        dest = pairsim.Particle("t")
        mom = dest.arr("moment")
        psph = dest.arr("p_sph")
        Mx = [[to_real(mom[4 * i + j]) for j in range(n)] for i in range(n)]
        for i in range(n):
            c.assume_unchecked(to_real(psph[i]) ==
                               z3.Sum([Mx[i][j] * v[j] for j in range(n)]))
        ns0 = pairsim.make_namespace(dest, None, kernel)
        pairsim.call(fo, "post_loop", ns0)
        return dest, Mx

    k = 0
    with patched_globals([I, L], dict(MATH_TABLE)):
        for path in explore(run, stats=stats, feas_timeout_ms=5000):
            k += 1
            if k % nshards != shard:
                continue
            c = path.ctx
            if path.exc is not None:
                out.setdefault("harness_errors", []).append(
                    "post_loop raised %r" % (path.exc,))
                continue
            dest, Mx = path.value
            dM = to_real(det([[SReal(x) for x in row] for row in Mx]))
            prop = dest.arr("prop")
            # well-scaled class as in C13 (the absolute 1e-12 pivot
            # threshold of gj_solve is C13's known finding)
            well = z3.And(*[z3.And(x <= 100, x >= -100) for row in Mx
                            for x in row])
            big = z3.Or(dM >= rv(1e-3), dM <= rv(-1e-3))
            claim = z3.Implies(z3.And(well, big), z3.And(*[
                to_real(prop[i]) == v[i] for i in range(n)]))
            out["obligations"] += 1
            r, model = c.prove(claim, timeout_ms=timeout_ms)
            if r == "unsat":
                out["discharged"] += 1
            elif r == "sat":
                out.setdefault("harness_errors", []).append(
                    "post_loop does not solve M x = b on path %d (model %s)"
                    % (k, str(model)[:300]))
            else:
                out["undecided"].append("path %d: d_prop solves M x = b" % k)
    out["stats"] = stats.as_dict()
    return out


REPLAY_GLUE = common.REPLAY_HEADER + '''
common.use_repo_with_build()
import types
from pysph.tools.sph_evaluator import SPHEvaluator
log = []
ev = SPHEvaluator.__new__(SPHEvaluator)
old = [object(), object()]
new = [object(), object()]
ev.arrays = old
ev.kernel = types.SimpleNamespace(dim=2, radius_scale=2.0)
ev.domain_manager = None
ev.nnps_factory = lambda **kw: log.append(("nnps", kw["particles"])) or ("NNPS", len(log))
ev.func_eval = types.SimpleNamespace(
    update_particle_arrays=lambda a: log.append(("func_eval.update_particle_arrays", a)),
    set_nnps=lambda n: log.append(("set_nnps", n)))
ev.update_particle_arrays(new)
bad = None
made = [x for x in log if x[0] == "nnps"]
if len(made) != 1 or made[0][1] is not new:
    bad = "the neighbour search is not rebuilt on the new arrays"
elif ("func_eval.update_particle_arrays", new) not in log:
    bad = "the evaluator does not receive the new arrays"
elif not any(x[0] == "set_nnps" and x[1] == ev.nnps for x in log):
    bad = "the evaluator does not receive the new neighbour search"
print(log)
sys.exit(common.replay_exit(bad))
'''


def unit_evaluator_glue():
    """SPHEvaluator.update_particle_arrays: the neighbour search is rebuilt
    on the NEW arrays and handed to the evaluator together with them (the
    interpolation formulas are only meaningful on consistent arrays)"""
    out = dict(unit="SPHEvaluator.update_particle_arrays (glue, concrete)",
               obligations=1, discharged=0, undecided=[])
    p = common.write_replay(PID, "evaluator_glue", REPLAY_GLUE)
    rc, txt = common.run_replay(p)
    if rc == 0:
        out["discharged"] = 1
    elif rc == 1 and common.REPLAY_MARK in txt:
        out.setdefault("violations", []).append(dict(
            what="SPHEvaluator.update_particle_arrays: " + txt.split(
                common.REPLAY_MARK + ": ")[-1].strip()[:200], replay=p,
            info=dict(unit="SPHEvaluator.update_particle_arrays")))
    else:
        out.setdefault("harness_errors", []).append(
            "evaluator glue replay failed: %s" % txt[-300:])
    from vf.symx import Stats
    out["stats"] = Stats().as_dict()
    return out


REPLAY_INTERP = common.REPLAY_HEADER + '''
common.use_repo_with_build()
import types
import numpy as np
from pysph.base.utils import get_particle_array
from pysph.tools.interpolator import Interpolator
n_real, n_ghost, has_prop = %(n_real)d, %(n_ghost)d, %(has_prop)r
def mk(name, n_real, n_ghost, has_prop, base):
    n = n_real + n_ghost
    pa = get_particle_array(name=name, x=np.arange(n, dtype=float),
                            temp_prop=-7.0 * np.ones(n))
    if has_prop:
        pa.add_property("q", data=base + np.arange(n))
    pa.tag[n_real:] = 2
    pa.align_particles()
    return pa
arrays = [mk("a", n_real, n_ghost, has_prop, 10.0), mk("b", 1, 1, True, 20.0)]
ip = Interpolator.__new__(Interpolator)
ip.particle_arrays = arrays
ip.method = "shepard"
ip.shape = (1,)
ip.pa = types.SimpleNamespace(prop=np.zeros(1))
seen = []
ip.func_eval = types.SimpleNamespace(
    compute=lambda t, dt: seen.append([pa.get("temp_prop", only_real_particles=False).copy() for pa in arrays]))
ip.interpolate("q")
bad = None
if len(seen) != 1:
    bad = "the evaluator ran %%d times" %% len(seen)
else:
    for pa, got in zip(arrays, seen[0]):
        n = pa.get_number_of_particles()
        want = pa.get("q", only_real_particles=False) if "q" in pa.properties else np.zeros(n)
        if not np.array_equal(got, want):
            bad = "sources of %%s seen by the evaluator carry %%r, the field is %%r (tags %%r)" %% (pa.name, got.tolist(), want.tolist(), pa.tag.tolist())
sys.exit(common.replay_exit(bad))
'''


class _View(object):
    """numpy-like view on a slice of a python list of solver terms"""

    def __init__(self, store, n):
        self.store, self.n = store, n

    def __len__(self):
        return self.n

    def __setitem__(self, key, data):
        if key != slice(None, None, None):
            raise TypeError("only [:] assignments are modelled")
        if isinstance(data, _View):
            if data.n != self.n:
                raise ValueError("could not broadcast input array from "
                                 "shape (%d,) into shape (%d,)" %
                                 (data.n, self.n))
            self.store[:self.n] = data.store[:self.n]
        else:
            self.store[:self.n] = [z3.RealVal(data)] * self.n


class _Arr(object):
    def __init__(self, name, n_real, n_ghost, props):
        self.name, self.n_real, self.n = name, n_real, n_real + n_ghost
        self.properties = {p_: [z3.Real("%s_%s_%d" % (name, p_, i))
                                for i in range(self.n)] for p_ in props}

    def get(self, prop, only_real_particles=True):
        return _View(self.properties[prop],
                     self.n_real if only_real_particles else self.n)


def unit_interpolate_glue():
    """Interpolator.interpolate: the real method copies the requested field
    into temp_prop of every source particle - ghost/remote ones included,
    they contribute to the documented sums - (or 0 where the array lacks
    the field) before the evaluator runs exactly once.  Field values are
    uninterpreted reals; z3 decides equality per particle."""
    import types
    common.use_repo_with_build()
    from pysph.tools.interpolator import Interpolator
    from vf.symx import Stats
    out = dict(unit="Interpolator.interpolate (field copy, real+ghost "
               "sources, with/without the field)", obligations=0,
               discharged=0, undecided=[])
    q = dict(unsat=0, sat=0, unknown=0)
    ncex = 0
    for n_real in (0, 1, 2):
        for n_ghost in (0, 1, 2):
            for has_prop in (True, False):
                a = _Arr("a", n_real, n_ghost,
                         ["q", "temp_prop"] if has_prop else ["temp_prop"])
                b = _Arr("b", 1, 1, ["q", "temp_prop"])
                field = {x.name: list(x.properties.get("q", [])) for x in
                         (a, b)}
                ip = Interpolator.__new__(Interpolator)
                ip.particle_arrays = [a, b]
                ip.method = "shepard"
                ip.shape = (1,)
                import numpy as np
                ip.pa = types.SimpleNamespace(prop=np.zeros(1))
                seen = []
                ip.func_eval = types.SimpleNamespace(
                    compute=lambda t, dt: seen.append(
                        {x.name: list(x.properties["temp_prop"])
                         for x in (a, b)}))
                what = "n_real=%d n_ghost=%d field %s" % (
                    n_real, n_ghost, "present" if has_prop else "absent")
                out["obligations"] += 1
                try:
                    ip.interpolate("q")
                except Exception as e:
                    terms = None
                    err = repr(e)
                if len(seen) == 1:
                    terms = []
                    for x in (a, b):
                        want = field[x.name] or [z3.RealVal(0)] * x.n
                        terms += [t_ == w for t_, w in
                                  zip(seen[0][x.name], want)]
                    sv = z3.Solver()
                    sv.set("timeout", 10000)
                    sv.add(z3.Not(z3.And(*terms)) if terms else
                           z3.BoolVal(False))
                    r = str(sv.check())
                    q[r if r in q else "unknown"] += 1
                else:
                    r = "sat"
                    q["sat"] += 1
                if r == "unsat":
                    out["discharged"] += 1
                elif r == "sat":
                    ncex += 1
                    p = common.write_replay(
                        PID, "interpolate_glue_%d" % ncex,
                        REPLAY_INTERP % dict(n_real=n_real, n_ghost=n_ghost,
                                             has_prop=has_prop))
                    common.triage(PID, out, "Interpolator.interpolate, %s: "
                                  "every source particle carries the field "
                                  "when the evaluator runs" % what, p,
                                  dict(unit="Interpolator.interpolate"))
                    if ncex >= 2:
                        break
                else:
                    out["undecided"].append(what)
            if ncex >= 2:
                break
        if ncex >= 2:
            break
    st = Stats().as_dict()
    st["queries"] = q
    out["stats"] = st
    return out


def main():
    t = common.tier()
    common.use_repo_with_build()
    import pysph.tools.interpolator as I
    rep = common.Report(
        PID, "other",
        "symbolic execution of the real interpolation equation hooks in the "
        "documented order for one target point and k source particles, from "
        "an arbitrary pre-state; z3 compares with the documented sums")
    for n in list(METHODS.values()) + ["SPHFirstOrderApproximationPreStep",
                                       "SPHFirstOrderApproximation"]:
        C = getattr(I, n)
        for m in ("initialize", "loop", "post_loop"):
            if hasattr(C, m):
                rep.functions.append(common.func_ref(getattr(C, m)))
    layouts = [(0,), (1,), (2,), (1, 1)] if t == "quick" else \
        [(0,), (1,), (2,), (3,), (1, 1), (2, 1)]
    units = [("vf.props.c14", "unit_evaluator_glue", {}),
             ("vf.props.c14", "unit_interpolate_glue", {})]
    rep.functions.append(common.func_ref(I.Interpolator.interpolate))
    for m in METHODS:
        for lay in layouts:
            units.append(("vf.props.c14", "unit_simple",
                          dict(method=m, layout=lay)))
    for dim in (1, 2, 3):
        for lay in ((1,), (2,), (1, 1)):
            units.append(("vf.props.c14", "unit_order1_moments",
                          dict(dim=dim, layout=lay)))
    units.append(("vf.props.c14", "unit_order1_solve", dict(dim=1)))
    for sh in range(8):
        units.append(("vf.props.c14", "unit_order1_solve",
                      dict(dim=2, shard=sh, nshards=8,
                           timeout_ms=20000 if t == "quick" else 300000)))
    rep.bounds = dict(methods=list(METHODS) + ["order1"], source_layouts=[
        list(x) for x in layouts], order1_dims=[1, 2, 3],
        order1_linear_solve_dims=[1, 2], numeric_domain="exact reals")
    rep.assumptions = [
        "kernel values are uninterpreted W(r,h) >= 0 (C08), gradient = "
        "G(r,h) * xij", "m, rho, h > 0",
        "hooks are driven in the documented order (C03 decides that the "
        "generated code does the same)",
        "the order1 linear solve is checked on well-scaled non-singular "
        "moment matrices (C13's class)"]
    rep.outside = ["Interpolator's Python glue other than interpolate()'s "
                   "field copy (set_interpolation_points, "
                   "update_particle_arrays, NNPS rebinding) which only runs "
                   "through compiled evaluators", "automatic grids, periodic "
                   "domains", "order1 linear solve in 3-D (4x4 Gauss-Jordan "
                   "paths)"]
    common.run_units(rep, units)
    return rep.finish()


if __name__ == "__main__":
    sys.exit(main())
