"""C08 -- every SPH kernel is normalised, compactly supported and
self-consistent.  The real classes of pysph/base/kernels.py are executed on
exact-real proxies (rij, h, xij and pi symbolic); z3 decides each identity
on every path (= piece)."""
import sys
import math
from fractions import Fraction

import z3

from vf import common, zdiff
from vf.symx import (explore, patched_globals, real, SReal, Stats, to_real,
                     model_value, rv, uf)

PID = "C08"

KERNELS = {
    # name: (dims, documented knots in q, kind)
    "CubicSpline": ((1, 2, 3), (0, 1, 2), "poly"),
    "WendlandQuinticC2_1D": ((1,), (0, 2), "poly"),
    "WendlandQuintic": ((2, 3), (0, 2), "poly"),
    "WendlandQuinticC4_1D": ((1,), (0, 2), "poly"),
    "WendlandQuinticC4": ((2, 3), (0, 2), "poly"),
    "WendlandQuinticC6_1D": ((1,), (0, 2), "poly"),
    "WendlandQuinticC6": ((2, 3), (0, 2), "poly"),
    "Gaussian": ((1, 2, 3), (0, 3), "gauss"),
    "SuperGaussian": ((1, 2, 3), (0, 3), "supergauss"),
    "QuinticSpline": ((1, 2, 3), (0, 1, 2, 3), "poly"),
}

EPS_R = Fraction(1e-12)            # the code's regularisation radius (float)


# ---------------------------------------------------------------------------
# replay on the real code in floating point

TOL = Fraction(1, 10**10)   # identities hold to TOL * (fac / h^d): the
#                             module's float literals (2.0/3.0, 7.0/478.0 ...)
#                             are rounded, the claims are over exact reals


def replay_point(kname, dim, kind, r, h, x):
    """Runs the real kernel class on 60-digit mpmath numbers (the python
    source is number-type generic), so that finite differences resolve the
    same tolerance the solver used."""
    import mpmath
    from mpmath import mpf
    mpmath.mp.dps = 60
    common.use_repo()
    from pysph.base import kernels
    kernels.exp = mpmath.exp
    K = getattr(kernels, kname)(dim=dim)
    rs = K.radius_scale
    r, h = mpf(r), mpf(h)
    x = [mpf(v) for v in x]
    tol = mpf(TOL.numerator) / mpf(TOL.denominator) * mpf("0.99")
    F = mpf(K.fac) / h ** dim
    W = lambda rr, hh: K.kernel([mpf(0), mpf(0), mpf(0)], rr, hh)   # noqa
    g = [mpf(0), mpf(0), mpf(0)]
    bad = None
    if kind == "support":
        K.gradient(x, r, h, g)
        vals = [W(r, h), K.dwdq(r, h)] + g
        if r >= rs * h and any(v != 0 for v in vals):
            bad = "non-zero outside the support: %r" % (vals,)
    elif kind == "sign_w":
        if W(r, h) < 0:
            bad = "W=%r < 0" % W(r, h)
    elif kind == "sign_dw":
        if K.dwdq(r, h) > 0:
            bad = "dwdq=%r > 0" % K.dwdq(r, h)
    elif kind == "dwdq":
        d = mpf("1e-30") * h
        # one-sided differences on both sides (r may sit on a knot)
        got = K.dwdq(r, h)
        fds = [(W(r + d, h) - W(r, h)) / d]
        if r - d > 0:
            fds.append((W(r, h) - W(r - d, h)) / d)
        if all(abs(h * fd - got) > tol * F for fd in fds):
            bad = "dwdq=%s but h*dW/dr=%s" % (got, [h * f for f in fds])
    elif kind == "origin":
        K.gradient(x, r, h, g)
        if K.dwdq(r, h) != 0 or any(v != 0 for v in g):
            bad = "dwdq/gradient not zero at r<=1e-12"
    elif kind == "gradient":
        K.gradient(x, r, h, g)
        t = K.dwdq(r, h) / (h * r)
        ex = [t * x[0], t * x[1], t * x[2]]
        sc = abs(t) * max(abs(v) for v in x) + mpf("1e-300")
        if any(abs(a - b) > mpf("1e-12") * sc for a, b in zip(g, ex)):
            bad = "gradient=%r expected %r" % (g, ex)
    elif kind == "gradient_h":
        d = mpf("1e-30") * h
        got = K.gradient_h(x, r, h)
        fds = [(W(r, h + d) - W(r, h)) / d, (W(r, h) - W(r, h - d)) / d]
        if all(abs(fd - got) > tol * F / h for fd in fds):
            bad = "gradient_h=%s but dW/dh=%s" % (got, fds)
    elif kind == "continuity":
        e = mpf("1e-40")
        a, b = W(r * (1 - e), h), W(r * (1 + e), h)
        c, d = K.dwdq(r * (1 - e), h), K.dwdq(r * (1 + e), h)
        if abs(a - b) > tol * F or abs(c - d) > tol * F:
            bad = "jump at r=%s: W %s|%s dwdq %s|%s" % (r, a, b, c, d)
    elif kind == "normalisation":
        knots = [mpf(k) * h for k in KERNELS[kname][1]]
        tot = mpmath.quad(lambda rr: W(rr, h) * rr ** (dim - 1), knots)
        tot *= {1: 2, 2: 2 * mpmath.pi, 3: 4 * mpmath.pi}[dim]
        if abs(tot - 1) > tol:
            bad = "integral of W over space = %s" % tot
    elif kind == "fac":
        f = mpf(K.fac) * mpmath.pi ** (mpf(dim) / 2)
        if abs(f - 1) > tol:
            bad = "fac*pi^(d/2) = %s" % f
    print(kname, dim, kind, "r=%s h=%s x=%s" % (r, h, x), "->", bad)
    return common.replay_exit(bad)


REPLAY = common.REPLAY_HEADER + '''
from vf.props.c08 import replay_point
sys.exit(replay_point(%(k)r, %(dim)d, %(kind)r, %(r)r, %(h)r, %(x)r))
'''


def unit_kernel(kname, dim, timeout_ms=30000):
    common.use_repo()
    from pysph.base import kernels
    cls = getattr(kernels, kname)
    knots, kind = KERNELS[kname][1], KERNELS[kname][2]
    stats = Stats()
    out = dict(unit="%s dim=%d" % (kname, dim), obligations=0, discharged=0,
               undecided=[], pieces=0)
    r, h = real("rij"), real("h")
    x = [real("x0"), real("x1"), real("x2")]
    PI, SQ = real("pi"), real("sqrtpi")
    rt, ht = r.t, h.t
    base = [ht > 0, rt >= 0, PI.t > 3, PI.t < 4, SQ.t > 0,
            SQ.t * SQ.t == PI.t]
    exp_rule = {"exp": lambda a: uf("exp", 1)(a)}
    nviol = [0]

    def cex(what, model, point_kind, extra_r=None):
        nviol[0] += 1
        rv_ = float(model_value(model, rt)) if extra_r is None else extra_r
        hv = float(model_value(model, ht))
        xv = [float(model_value(model, t.t)) for t in x]
        p = common.write_replay(
            PID, "%s_%d_%s_%d" % (kname, dim, point_kind, nviol[0]),
            REPLAY % dict(k=kname, dim=dim, kind=point_kind, r=rv_, h=hv,
                          x=xv))
        common.triage(PID, out, "%s dim=%d: %s" % (kname, dim, what), p,
                      dict(unit=kname, dim=dim, kind=point_kind))

    def claim(c, what, term, point_kind):
        out["obligations"] += 1
        res, model = c.prove(term, timeout_ms=timeout_ms)
        if res == "unsat":
            out["discharged"] += 1
        elif res == "sat":
            cex(what, model, point_kind)
        else:
            out["undecided"].append(what)
        return res

    def make(c, extra=()):
        for b in base:
            c.assume_unchecked(b)
        for e in extra:
            c.assume(e)
        K = cls(dim=dim)
        return K

    def run(c):
        K = make(c)
        W = K.kernel(x, r, h)
        dw = K.dwdq(r, h)
        g = [0.0, 0.0, 0.0]
        K.gradient(x, r, h, g)
        gh = K.gradient_h(x, r, h)
        return K, W, dw, g, gh

    glob = dict(M_1_PI=1.0, M_2_SQRTPI=1.0, pi=PI)   # set per path below
    pieces = []
    with patched_globals(kernels):
        # symbolic pi: fac is built from these module globals in __init__
        class _LazyDiv(object):
            pass
        for path in explore(_with_pi(run, kernels, PI, SQ), stats=stats):
            c = path.ctx
            if path.exc is not None:
                out.setdefault("harness_errors", []).append(
                    "kernel raised %r on a symbolic path" % (path.exc,))
                continue
            K, W, dw, g, gh = path.value
            Wt, dwt, ght = to_real(W), to_real(dw), to_real(gh)
            gt = [to_real(v) for v in g]
            rs = Fraction(K.radius_scale)
            out["pieces"] += 1
            tag = "piece %d" % out["pieces"]
            outside = rt >= rv(rs) * ht
            claim(c, "%s: W, dwdq, gradient vanish for r >= %s h" % (tag, rs),
                  z3.Implies(outside, z3.And(Wt == 0, dwt == 0,
                                             *[v == 0 for v in gt])),
                  "support")
            if kind != "supergauss":
                claim(c, "%s: W >= 0" % tag, Wt >= 0, "sign_w")
                claim(c, "%s: dwdq <= 0 (non-increasing)" % tag, dwt <= 0,
                      "sign_dw")
            far = rt > rv(EPS_R)
            Fs = to_real(K.fac) / (ht ** dim)       # scale fac / h^d > 0
            tolF = rv(TOL) * Fs

            def close(a, b, scale):
                return z3.And(a - b <= scale, b - a <= scale)
            dWdr = zdiff.diff(Wt, rt, exp_rule)
            claim(c, "%s: dwdq = h dW/dr" % tag,
                  z3.Implies(far, close(dwt, ht * dWdr, tolF)), "dwdq")
            claim(c, "%s: dwdq = gradient = 0 for r <= 1e-12" % tag,
                  z3.Implies(z3.Not(far), z3.And(dwt == 0,
                                                 *[v == 0 for v in gt])),
                  "origin")
            claim(c, "%s: gradient = dwdq/(h r) xij" % tag,
                  z3.Implies(far, z3.And(*[
                      gt[i] * (ht * rt) == dwt * x[i].t for i in range(3)])),
                  "gradient")
            dWdh = zdiff.diff(Wt, ht, exp_rule)
            claim(c, "%s: gradient_h = dW/dh" % tag,
                  close(ght, dWdh, tolF / ht), "gradient_h")
            pieces.append((list(c.pc), Wt, dwt, out["pieces"], tolF))

        # -- continuity across piece boundaries ------------------------------
        for i in range(len(pieces)):
            for j in range(i + 1, len(pieces)):
                pci, Wi, dwi, ni, tolF = pieces[i]
                pcj, Wj, dwj, nj, _ = pieces[j]
                s = z3.Solver()
                s.set("timeout", timeout_ms)
                for t in pci + pcj:
                    s.add(zdiff.relax(t))
                s.add(rt > rv(EPS_R))
                s.add(*base)
                if kind != "poly":
                    # the Gaussian family is truncated at the support edge
                    s.add(rt < rv(Fraction(cls(dim=dim).radius_scale)) * ht)
                s.add(z3.Or(Wi - Wj > tolF, Wj - Wi > tolF,
                            dwi - dwj > tolF, dwj - dwi > tolF))
                out["obligations"] += 1
                res = str(s.check())
                stats.queries[res] += 1
                what = "W and dwdq continuous between pieces %d and %d" % (
                    ni, nj)
                if res == "unsat":
                    out["discharged"] += 1
                elif res == "sat":
                    cex(what, s.model(), "continuity")
                else:
                    out["undecided"].append(what)

        # -- normalisation certificate ---------------------------------------
        if kind == "poly":
            _normalisation(cls, kname, dim, knots, kernels, PI, SQ, base, r, h,
                           x, stats, out, cex, timeout_ms)
        else:
            def facrun(c):
                K = make(c)
                return K.fac
            for path in explore(_with_pi(facrun, kernels, PI, SQ),
                                stats=stats):
                f = to_real(path.value)
                fp = f * (SQ.t ** dim)
                want = z3.And(fp - 1 <= rv(TOL), 1 - fp <= rv(TOL))
                out["obligations"] += 1
                res, model = path.ctx.prove(want, timeout_ms=timeout_ms)
                if res == "unsat":
                    out["discharged"] += 1
                elif res == "sat":
                    cex("fac = pi^(-d/2)", model, "fac", extra_r=0.0)
                else:
                    out["undecided"].append("fac = pi^(-d/2)")
    if out["pieces"] < len(knots):
        out.setdefault("harness_errors", []).append(
            "vacuity: only %d pieces explored" % out["pieces"])
    out["stats"] = stats.as_dict()
    out["sample"] = dict(unit=out["unit"], pieces=out["pieces"],
                         symbolic=["rij>=0", "h>0", "xij[0..2]",
                                   "3<pi<4, sqrtpi^2=pi"])
    return out


def _with_pi(fn, kernels, PI, SQ):
    def wrapped(c):
        c.assume_unchecked(PI.t > 3)
        c.assume_unchecked(SQ.t > 0)
        kernels.M_1_PI = 1.0 / PI
        kernels.M_2_SQRTPI = 2.0 / SQ
        kernels.pi = PI
        return fn(c)
    return wrapped


def _normalisation(cls, kname, dim, knots, kernels, PI, SQ, base, r, h, x,
                   stats, out, cex, timeout_ms):
    import sympy as sp
    rt, ht = r.t, h.t
    total = z3.RealVal(0)
    ok = True
    for a, b in zip(knots[:-1], knots[1:]):
        terms = []

        def run(c):
            for t in base:
                c.assume_unchecked(t)
            c.assume(rt > rv(a) * ht)
            c.assume(rt < rv(b) * ht)
            c.assume(rt > rv(EPS_R))
            K = cls(dim=dim)
            return K.kernel(x, r, h)
        for path in explore(_with_pi(run, kernels, PI, SQ), stats=stats):
            if path.exc is not None:
                ok = False
                continue
            terms.append((to_real(path.value), list(path.ctx.pc)))
        # all paths inside one documented interval must give the same W
        W0 = terms[0][0]
        for Wk, pck in terms[1:]:
            s = z3.Solver()
            s.set("timeout", timeout_ms)
            for t in pck:
                s.add(t)
            s.add(Wk != W0)
            if str(s.check()) != "unsat":
                ok = False
        if not ok:
            out["undecided"].append(
                "normalisation: piece structure inside (%s,%s)h differs from "
                "the documented knots" % (a, b))
            return
        # untrusted antiderivative from sympy, checked by z3
        syms = {}
        integrand = W0 * (rt ** (dim - 1)) if dim > 1 else W0
        se = zdiff.to_sympy(z3.simplify(integrand), syms)
        rs_ = syms.setdefault("rij", sp.Symbol("rij", real=True))
        Fs = sp.integrate(sp.expand(se), rs_)
        zv = {"rij": rt, "h": ht, "pi": PI.t, "sqrtpi": SQ.t}
        F = zdiff.from_sympy(sp.together(Fs), zv)
        dF = zdiff.diff(F, rt)
        s = z3.Solver()
        s.set("timeout", timeout_ms)
        for t in base:
            s.add(t)
        s.add(z3.simplify(dF - integrand, som=True) != 0)
        out["obligations"] += 1
        res = str(s.check())
        stats.queries[res] += 1
        if res != "unsat":
            out["undecided"].append("antiderivative certificate for (%s,%s)h"
                                    % (a, b))
            return
        out["discharged"] += 1
        Fb = z3.substitute(F, (rt, rv(b) * ht))
        Fa = z3.substitute(F, (rt, rv(a) * ht))
        total = total + (Fb - Fa)
    Sd = {1: z3.RealVal(2), 2: 2 * PI.t, 3: 4 * PI.t}[dim]
    s = z3.Solver()
    s.set("timeout", timeout_ms)
    for t in base:
        s.add(t)
    s.add(z3.Or(Sd * total - 1 > rv(TOL), 1 - Sd * total > rv(TOL)))
    out["obligations"] += 1
    res = str(s.check())
    stats.queries[res] += 1
    if res == "unsat":
        out["discharged"] += 1
    elif res == "sat":
        cex("integral of W over space = 1", s.model(), "normalisation",
            extra_r=0.0)
    else:
        out["undecided"].append("normalisation integral")


def unit_constants():
    """import-time constants of the module (concrete)"""
    common.use_repo()
    from pysph.base import kernels
    out = dict(unit="module constants", obligations=2, discharged=0,
               undecided=[])
    if abs(kernels.M_1_PI * math.pi - 1) < 1e-15:
        out["discharged"] += 1
    else:
        out.setdefault("harness_errors", []).append("M_1_PI != 1/pi")
    if abs(kernels.M_2_SQRTPI * math.sqrt(math.pi) - 2) < 1e-15:
        out["discharged"] += 1
    else:
        out.setdefault("harness_errors", []).append("M_2_SQRTPI != 2/sqrt(pi)")
    out["stats"] = Stats().as_dict()
    return out


def main():
    common.use_repo()
    from pysph.base import kernels
    rep = common.Report(
        PID, "other",
        "bounded symbolic execution of the real pysph.base.kernels classes "
        "on exact-real proxies (rij, h, xij, pi symbolic; exp uninterpreted "
        "with exp>0); z3 decides each identity on every path")
    rep.functions = [common.func_ref(getattr(kernels, k)) for k in KERNELS]
    rep.bounds = dict(kernels=list(KERNELS), dims="every dim each class "
                      "accepts", numeric_domain="exact reals",
                      documented_knots={k: list(v[1]) for k, v in
                                        KERNELS.items()})
    rep.assumptions = [
        "python floats modelled as reals; M_1_PI and M_2_SQRTPI replaced by "
        "1/pi and 2/sqrtpi with pi symbolic (3<pi<4, sqrtpi^2=pi); their "
        "import-time float values are checked concretely",
        "exp is uninterpreted with exp(x)>0 and d/dx exp(u) = exp(u) u'",
        "formal differentiation (vf/zdiff.py) is trusted; antiderivatives "
        "come from sympy and are verified by z3",
        "documented piece boundaries (knots) are taken from the class "
        "docstrings for the normalisation integral",
    ]
    rep.outside = ["normalisation integral of Gaussian/SuperGaussian (needs "
                   "erf; only fac = pi^(-d/2) is checked)",
                   "IEEE rounding",
                   "compiled twins in c_kernels.pyx (see C02 translation "
                   "validation)"]
    units = [("vf.props.c08", "unit_constants", {})]
    for k, (dims, _, _) in KERNELS.items():
        for d in dims:
            units.append(("vf.props.c08", "unit_kernel", dict(kname=k, dim=d)))
    common.run_units(rep, units)
    return rep.finish()


if __name__ == "__main__":
    sys.exit(main())
