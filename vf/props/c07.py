"""C07 -- periodic and mirror domains create exactly the right ghosts.

The Cython sources of DomainManagerBase/CPUDomainManager (constructor,
update, _box_wrap_periodic, _create_ghosts_periodic, _create_ghosts_mirror,
_compute_cell_size_for_binning, _remove_ghosts and the small array helpers)
are lowered to Python (vf/cy2py.py) and run on record particle arrays with
exact-real positions, velocities and smoothing lengths.  Per path z3 decides
that real particles are wrapped into the box and that the ghost multiset
equals the documented set of images; a second update without motion must
leave the same particles."""
import sys
import os
import itertools

import z3

from vf import common, nnpsmodel as NM
from vf.symx import (explore, Stats, real, to_real, rv, is_sym, model_value,
                     SReal, sym_max)

PID = "C07"
RS = 2.0
DM_BASE = ["DomainManagerBase.__init__", "DomainManagerBase._check_limits",
           "DomainManagerBase.set_pa_wrappers",
           "DomainManagerBase.set_cell_size",
           "DomainManagerBase._remove_ghosts"]
DM_CPU = ["CPUDomainManager.__init__", "CPUDomainManager.update",
          "CPUDomainManager._add_to_array",
          "CPUDomainManager._change_velocity",
          "CPUDomainManager._add_array_to_array",
          "CPUDomainManager._mul_to_array",
          "CPUDomainManager._create_ghosts_mirror",
          "CPUDomainManager._box_wrap_periodic",
          "CPUDomainManager._create_ghosts_periodic",
          "CPUDomainManager._compute_cell_size_for_binning"]
VALS = ("x", "y", "z", "u", "v", "w", "h", "m")


def build_classes(M):
    base = {}
    for m in DM_BASE:
        base[m.split(".")[-1]] = M.load(m)
    Base = type("DomainManagerBase", (object,), base)
    M.ns["DomainManagerBase"] = Base
    cpu = {}
    for m in DM_CPU:
        cpu[m.split(".")[-1]] = M.load(m)
    cpu["_update_from_gpu"] = lambda self: None
    cpu["_update_gpu"] = lambda self: None
    return type("CPUDomainManager", (Base,), cpu)


REPLAY = common.REPLAY_HEADER + '''
common.use_repo_with_build()
import numpy as np
from pysph.base.utils import get_particle_array
from pysph.base.nnps import DomainManager, LinkedListNNPS
cfg, arrays, box = %(cfg)r, %(arrays)r, %(box)r
pas = []
for i, a in enumerate(arrays):
    pa = get_particle_array(name="a%%d" %% i, x=a["x"], y=a["y"], z=a["z"], u=a["u"], v=a["v"], w=a["w"], h=a["h"], m=a["m"])
    pa.add_property("uid", type="int"); pa.uid[:] = [100*i + k for k in range(len(a["x"]))]
    pas.append(pa)
kw = dict(xmin=box[0], xmax=box[1], ymin=box[2], ymax=box[3], zmin=box[4], zmax=box[5], n_layers=cfg["n_layers"])
for ax in "xyz":
    kw["periodic_in_" + ax] = ax in cfg["periodic"]
    kw["mirror_in_" + ax] = ax in cfg["mirror"]
dom = DomainManager(**kw)
nn = LinkedListNNPS(dim=cfg["dim"], particles=pas, radius_scale=2.0, domain=dom)
from vf.props.c07 import expected_images_concrete
bad = None
cell = 2.0*max(max(a["h"]) for a in arrays)*cfg["n_layers"]
rnd = lambda t: tuple(round(float(q), 9) for q in t)
for rep in range(2):
    if rep: nn.update_domain()
    for i, pa in enumerate(pas):
        n = len(arrays[i]["x"])
        tag = pa.get("tag", only_real_particles=False)
        get = lambda p: pa.get(p, only_real_particles=False)
        reals = [(int(get("uid")[k]),) + tuple(float(get(c)[k]) for c in "xyz") for k in range(len(tag)) if tag[k] == 0]
        ghosts = sorted((int(get("uid")[k]),) + rnd(get(c)[k] for c in "xyzuvw") for k in range(len(tag)) if tag[k] == 2)
        exp = sorted(expected_images_concrete(cfg, box, cell, reals, dict((int(get("uid")[k]), tuple(float(get(c)[k]) for c in "uvw")) for k in range(len(tag)) if tag[k] == 0)))
        print("update", rep + 1, "array", i, "real", reals, "ghosts", ghosts, "expected", exp)
        if len(reals) != n:
            bad = "array %%d has %%d real particles after update %%d (expected %%d)" %% (i, len(reals), rep + 1, n)
        for rec in reals:
            k = rec[0] - 100*i
            for j, ax in enumerate("xyz"):
                got, orig, lo, hi = rec[1 + j], arrays[i][ax][k], box[2*j], box[2*j + 1]
                if ax in cfg["periodic"]:
                    L = hi - lo
                    if not (lo - 1e-9*L <= got <= hi + 1e-9*L) or min(abs(got - orig - s*L) for s in (-1, 0, 1)) > 1e-9*L:
                        bad = "array %%d particle %%d: %%s=%%r after the update (was %%r, box [%%r, %%r])" %% (i, k, ax, got, orig, lo, hi)
                elif abs(got - orig) > 1e-12*(1 + abs(orig)):
                    bad = "array %%d particle %%d: %%s changed from %%r to %%r" %% (i, k, ax, orig, got)
        if ghosts != exp:
            bad = "array %%d update %%d: ghosts %%r, documented images %%r" %% (i, rep + 1, ghosts, exp)
sys.exit(common.replay_exit(bad))
'''


def expected_images_concrete(cfg, box, cell, reals, vel):
    """documented images for concrete data (used by the replay)"""
    out = []
    for rec in reals:
        uid, pos = rec[0], rec[1:4]
        uvw = vel[uid]
        opts = []
        for j, ax in enumerate("xyz"):
            lo, hi = box[2 * j], box[2 * j + 1]
            o = [0]
            if ax in cfg["periodic"] or ax in cfg["mirror"]:
                if pos[j] - lo <= cell:
                    o.append(+1)
                if hi - pos[j] <= cell:
                    o.append(-1)
            opts.append(o)
        for combo in itertools.product(*opts):
            if not any(combo):
                continue
            p, q = [], []
            for j, s_ in enumerate(combo):
                lo, hi = box[2 * j], box[2 * j + 1]
                if cfg["periodic"]:
                    p.append(pos[j] + s_ * (hi - lo))
                    q.append(uvw[j])
                else:
                    p.append(pos[j] if s_ == 0 else (
                        2 * lo - pos[j] if s_ == 1 else 2 * hi - pos[j]))
                    q.append(-uvw[j] if s_ else uvw[j])
            out.append((uid,) + tuple(round(v, 9) for v in p + q))
    return out


def unit_domain(cfg, layout, deadline_s=200, timeout_ms=20000):
    """cfg: dict(dim, periodic='x'|'xy'|'', mirror='x'|'xy'|'', n_layers)"""
    common.use_repo()
    stats = Stats()
    out = dict(unit="domain %s arrays=%s" % (cfg, layout), obligations=0,
               discharged=0, undecided=[])
    try:
        M = NM.base_module()
        DM = build_classes(M)
    except Exception as e:
        out.setdefault("harness_errors", []).append(
            "lowering failed: %r" % (e,))
        out["stats"] = stats.as_dict()
        return out
    findings = common.load_findings(PID)
    ncex = [0]
    dim = cfg["dim"]
    axes = "xyz"[:dim]
    VEL = {"x": "u", "y": "v", "z": "w"}

    def run(c):
        box = dict((ax + e, real(ax + e)) for ax in "xyz"
                   for e in ("min", "max"))
        for ax in axes:
            c.assume_unchecked(box[ax + "max"].t > box[ax + "min"].t)
        pas, init = [], []
        hs = []
        for a, n in enumerate(layout):
            vals = {}
            for k in VALS:
                if (dim < 3 and k in ("z", "w")) or \
                        (dim == 1 and k in ("y", "v")):
                    vals[k] = [0.0] * n
                else:
                    vals[k] = [real("%s%d_%d" % (k, a, i)) for i in range(n)]
            hs += vals["h"]
            props = dict((k, list(v)) for k, v in vals.items())
            props.update(gid=[0] * n, tag=[0] * n, pid=[0] * n,
                         uid=[100 * a + i for i in range(n)])
            pas.append(NM.RecPA("a%d" % a, props))
            init.append(vals)
        for h in hs:
            c.assume_unchecked(z3.And(h.t > 0, h.t <= rv(0.5)))
        c.assume_unchecked(hs[0].t == rv(0.5))       # max h = 0.5
        cell = RS * 0.5 * cfg["n_layers"]           # ghost layer thickness
        # particles have left the box by less than one period; the box is
        # at least two ghost layers wide (each image set is then well
        # defined: a particle is in at most one layer per axis unless the
        # box is narrower, which is covered by the 'narrow' configuration)
        for ax in axes:
            lo, hi = box[ax + "min"].t, box[ax + "max"].t
            L = hi - lo
            if cfg.get("narrow"):
                c.assume_unchecked(L >= rv(cell))
            else:
                c.assume_unchecked(L > rv(2 * cell))
            for vals in init:
                for v in vals[ax]:
                    if ax in cfg["periodic"]:
                        c.assume_unchecked(z3.And(v.t > lo - L, v.t < hi + L))
                    else:
                        c.assume_unchecked(z3.And(v.t >= lo, v.t <= hi))
        kw = dict(xmin=box["xmin"], xmax=box["xmax"],
                  ymin=box["ymin"] if dim > 1 else 0.0,
                  ymax=box["ymax"] if dim > 1 else 0.0,
                  zmin=box["zmin"] if dim > 2 else 0.0,
                  zmax=box["zmax"] if dim > 2 else 0.0,
                  n_layers=cfg["n_layers"])
        for ax in "xyz":
            kw["periodic_in_" + ax] = ax in cfg["periodic"]
            kw["mirror_in_" + ax] = ax in cfg["mirror"]
        dm = DM(**kw)
        dm.radius_scale = RS
        dm.set_pa_wrappers([NM.Wrapper(p) for p in pas])
        dm.update()
        first = [p.particles() for p in pas]
        nreal1 = [p.num_real_particles for p in pas]
        for w in dm.pa_wrappers:
            w.rebind()
        dm.update()
        second = [p.particles() for p in pas]
        return box, init, first, second, nreal1, cell

    for path in explore(run, stats=stats, max_paths=20000, fork_minmax=True,
                        deadline_s=deadline_s, feas_timeout_ms=5000):
        c = path.ctx
        if path.exc is not None:
            out.setdefault("harness_errors", []).append(
                "lowered domain manager raised %r" % (path.exc,))
            break
        box, init, first, second, nreal1, cell = path.value
        problems = []
        for a, vals in enumerate(init):
            n = len(vals["x"])
            recs = first[a]
            reals = [r for r in recs if int(r["tag"][0]) == 0]
            ghosts = [r for r in recs if int(r["tag"][0]) == 2]
            if len(reals) != n or nreal1[a] != n or \
                    [int(r["tag"][0]) for r in recs[:n]] != [0] * n:
                problems.append(("real", "array %d: %d real particles after "
                                 "the update (expected %d, first)" % (
                                     a, len(reals), n), None))
                continue
            byuid = dict((int(r["uid"][0]), r) for r in reals)
            exp = []
            claims = []
            for i in range(n):
                r = byuid[100 * a + i]
                pos = {}
                for ax in axes:
                    lo, hi = box[ax + "min"].t, box[ax + "max"].t
                    L = hi - lo
                    x0 = to_real(vals[ax][i])
                    xw = to_real(r[ax][0])
                    if ax in cfg["periodic"]:
                        # wrapped by whole periods into [lo, hi]
                        claims.append(z3.And(xw >= lo, xw <= hi, z3.Or(
                            xw == x0, xw == x0 + L, xw == x0 - L)))
                    else:
                        claims.append(xw == x0)
                    pos[ax] = xw
                # other values untouched
                for k in ("u", "v", "w", "h", "m"):
                    if is_sym(vals[k][i]):
                        claims.append(to_real(r[k][0]) ==
                                      to_real(vals[k][i]))
                # documented images of this particle
                opts = []
                for ax in axes:
                    lo, hi = box[ax + "min"].t, box[ax + "max"].t
                    o = [0]
                    if ax in cfg["periodic"] or ax in cfg["mirror"]:
                        if bool(SReal(pos[ax] - lo) <= cell):
                            o.append(+1)
                        if bool(SReal(hi - pos[ax]) <= cell):
                            o.append(-1)
                    opts.append((ax, o))
                for combo in itertools.product(*[o for _, o in opts]):
                    if not any(combo):
                        continue
                    img = dict(uid=100 * a + i)
                    for (ax, _), s in zip(opts, combo):
                        lo, hi = box[ax + "min"].t, box[ax + "max"].t
                        vel = VEL[ax]
                        if cfg["periodic"]:
                            img[ax] = pos[ax] + s * (hi - lo)
                            img[vel] = to_real(r[vel][0])
                        else:
                            img[ax] = pos[ax] if s == 0 else (
                                2 * lo - pos[ax] if s == 1 else
                                2 * hi - pos[ax])
                            img[vel] = -to_real(r[vel][0]) if s else \
                                to_real(r[vel][0])
                    for k in ("h", "m"):
                        img[k] = to_real(r[k][0])
                    exp.append(img)
            # match ghosts with expected images (same uid, equal values)
            if len(ghosts) != len(exp):
                problems.append(("count", "array %d: %d ghosts, %d documented "
                                 "images" % (a, len(ghosts), len(exp)), None))
            else:
                left = list(exp)
                for g in ghosts:
                    hit = None
                    for e in left:
                        if e["uid"] != int(g["uid"][0]):
                            continue
                        from vf.zdiff import formally_equal
                        if all(formally_equal(to_real(g[k][0]), e[k])
                               for k in e if k != "uid"):
                            hit = e
                            break
                    if hit is None:
                        for e in left:
                            if e["uid"] != int(g["uid"][0]):
                                continue
                            eqs = [(SReal(to_real(g[k][0])), SReal(e[k]))
                                   for k in e if k != "uid"]
                            r_, _m = c.prove_eqs(eqs, timeout_ms=timeout_ms)
                            if r_ == "unsat":
                                hit = e
                                break
                    if hit is None:
                        # a model in which this ghost differs from every
                        # documented image of its particle
                        diff = []
                        for e in exp:
                            if e["uid"] != int(g["uid"][0]):
                                continue
                            diff.append(z3.Or(*[to_real(g[k][0]) != e[k]
                                                for k in e if k != "uid"]))
                        r2, m2 = c.prove(z3.Not(z3.And(*diff)) if diff
                                         else z3.BoolVal(False),
                                         timeout_ms=timeout_ms)
                        problems.append(("image", "array %d: ghost of "
                                         "particle %d at (%s) is not a "
                                         "documented image" % (
                                             a, int(g["uid"][0]),
                                             ", ".join(str(g[ax][0])
                                                       for ax in axes)),
                                         m2 if r2 == "sat" else None))
                        break
                    left.remove(hit)
            if claims:
                out["obligations"] += 1
                r_, model = c.prove(z3.And(*claims), timeout_ms=timeout_ms)
                if r_ == "unsat":
                    out["discharged"] += 1
                elif r_ == "sat":
                    problems.append(("wrap", "array %d: real particles not "
                                     "wrapped into the box / altered" % a,
                                     model))
                else:
                    out["undecided"].append("wrap claims array %d" % a)
            # repeated update: same multiset of records
            out["obligations"] += 1
            if _same_multiset(first[a], second[a]):
                out["discharged"] += 1
            else:
                problems.append(("repeat", "array %d: a second update "
                                 "changes the particles (%d -> %d records)"
                                 % (a, len(first[a]), len(second[a])), None))
        out["obligations"] += 1
        if not problems:
            out["discharged"] += 1
            continue
        kind, what, model = problems[0]
        if ncex[0] >= 3:
            continue
        if model is None:
            if c.reachable() != "sat":
                out["undecided"].append(what)
                continue
            model = c.last_model_solver.model()
        ncex[0] += 1
        arrays = []
        for a, vals in enumerate(init):
            arrays.append(dict((k, [float(model_value(model, to_real(v)))
                                    if is_sym(v) else float(v)
                                    for v in vals[k]])
                               for k in ("x", "y", "z", "u", "v", "w", "h",
                                         "m")))
        bx = [float(model_value(model, box[k].t)) for k in
              ("xmin", "xmax", "ymin", "ymax", "zmin", "zmax")]
        for j in range(dim, 3):
            bx[2 * j], bx[2 * j + 1] = 0.0, 0.0
        p = common.write_replay(PID, "dom_%s_%s_%d" % (
            (cfg["periodic"] or "m" + cfg["mirror"]) + str(dim),
            "x".join(map(str, layout)), ncex[0]),
            REPLAY % dict(cfg=cfg, arrays=arrays, box=bx))
        common.triage(PID, out, "%s: %s" % (out["unit"], what), p,
                      dict(unit="domain", kind=kind,
                           mirror=bool(cfg["mirror"]),
                           arrays=len(layout)), findings, soft=True)
    out["stats"] = stats.as_dict()
    out["sample"] = dict(unit=out["unit"])
    return out


def _same_multiset(a, b):
    if len(a) != len(b):
        return False
    left = list(b)
    for r in a:
        hit = None
        for q in left:
            if set(r) == set(q) and all(
                    len(r[k]) == len(q[k]) and all(
                        (z3.eq(z3.simplify(to_real(x)),
                               z3.simplify(to_real(y)))
                         if (is_sym(x) or is_sym(y)) else x == y)
                        for x, y in zip(r[k], q[k])) for k in r):
                hit = q
                break
        if hit is None:
            return False
        left.remove(hit)
    return True


def main():
    t = common.tier()
    common.use_repo()
    rep = common.Report(
        PID, "other",
        "the Cython sources of the CPU domain manager are lowered to Python "
        "and executed on exact-real particle data; every layer-membership "
        "pattern is enumerated by the path explorer and z3 decides wrapping "
        "and the equality of the ghost multiset with the documented images")
    b = os.path.join(common.REPO, "pysph", "base")
    rep.functions = ["nnps_base.pyx sha=%s (%s)" % (
        common.sha_of(os.path.join(b, "nnps_base.pyx")),
        ", ".join(m.split(".")[-1] for m in DM_BASE + DM_CPU))]
    cfgs = [
        (dict(dim=1, periodic="x", mirror="", n_layers=1.0), (1,)),
        (dict(dim=1, periodic="x", mirror="", n_layers=2.0), (2,)),
        (dict(dim=1, periodic="x", mirror="", n_layers=1.0), (1, 1)),
        (dict(dim=1, periodic="", mirror="x", n_layers=1.0), (1,)),
        (dict(dim=1, periodic="", mirror="x", n_layers=1.0), (1, 1)),
        (dict(dim=2, periodic="xy", mirror="", n_layers=1.0), (1,)),
        (dict(dim=2, periodic="x", mirror="", n_layers=1.0), (1,)),
        (dict(dim=2, periodic="", mirror="xy", n_layers=1.0), (1,)),
        (dict(dim=3, periodic="xyz", mirror="", n_layers=1.0), (1,)),
        (dict(dim=3, periodic="", mirror="xyz", n_layers=1.0), (1,)),
        (dict(dim=3, periodic="z", mirror="", n_layers=1.0), (1,)),
        (dict(dim=1, periodic="x", mirror="", n_layers=1.0, narrow=True),
         (1,)),
    ]
    if t != "quick":
        cfgs += [
            (dict(dim=1, periodic="x", mirror="", n_layers=1.0), (3,)),
            (dict(dim=2, periodic="xy", mirror="", n_layers=1.0), (2,)),
            (dict(dim=2, periodic="xy", mirror="", n_layers=1.0), (1, 1)),
            (dict(dim=2, periodic="", mirror="xy", n_layers=1.0), (1, 1)),
            (dict(dim=2, periodic="", mirror="y", n_layers=2.0), (2,)),
        ]
    units = [("vf.props.c07", "unit_domain",
              dict(cfg=c_, layout=l, deadline_s=200 if t == "quick"
                   else 1500)) for c_, l in cfgs]
    rep.bounds = dict(configurations=[dict(c_, arrays=list(l))
                                      for c_, l in cfgs],
                      max_h="0.5 (ghost layer = n_layers * 1.0)",
                      copied_properties="all (props=None)")
    rep.assumptions = [
        "Cython->Python lowering (vf/cy2py.py) and the cyarray / "
        "ParticleArray models (vf/nnpsmodel.py) are trusted",
        "particles are outside the box by less than one period; the box is "
        "wider than two ghost layers (one configuration allows a narrow box "
        ">= one layer); mirror domains: particles inside the box",
        "documented images: one per non-zero combination of per-axis shifts "
        "for which the particle lies within the ghost layer of that face "
        "(periodic: translated copy; mirror: reflected coordinate and "
        "negated normal velocity), all other values copied"]
    rep.outside = ["GPU domain manager", "in_parallel",
                   "copied-property subsets"]
    common.run_units(rep, units)
    return rep.finish()


if __name__ == "__main__":
    sys.exit(main())
