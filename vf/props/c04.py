"""C04 -- the compiled integrator performs one_timestep exactly as written.

For every shipped Integrator subclass x IntegratorStep subclass the real
IntegratorCythonHelper + integrator_cython.mako generate the Cython module;
it is lowered to Python (vf/gen2py.py) and step(t, dt) is executed with the
real Python Integrator.compute_accelerations / update_domain behind it, on
arrays of exact-real symbolic values with a symbolic number of real and
ghost particles.  The reference executes the REAL one_timestep method of the
same integrator class on an object that implements the documented
primitives literally with the Python stepper methods.  Event traces and
final arrays must agree on every path."""
import sys
import inspect
import importlib
import re
import types

import z3

from vf import common, gen2py
from vf.symx import (explore, Stats, integer, real, SReal, to_real,
                     patched_globals, MATH_TABLE, is_sym)

PID = "C04"
STAGE = re.compile(r"^(initialize|stage\d+)$")


class Vals(object):
    """one property array of one particle array (list of proxies)"""

    def __init__(self, vals):
        self.data = vals


STRIDES = {}      # property -> values per particle (set per unit)
_STRIDED = re.compile(r"d_(\w+)\[\s*(?:d_idx\s*\*\s*(\d+)|(\d+)\s*\*\s*"
                      r"d_idx)")


def prop_strides(stepper_cls):
    """strided properties are recognised by their indexing d_p[d_idx*K+..]"""
    out = {}
    try:
        src = inspect.getsource(stepper_cls)
    except (OSError, TypeError):
        return out
    for m in _STRIDED.finditer(src):
        out[m.group(1)] = max(out.get(m.group(1), 1),
                              int(m.group(2) or m.group(3)))
    return out


class ArrWrapper(object):
    def __init__(self, name, index, nreal, nghost, props, tag):
        self.name, self.index = name, index
        self.nreal, self.nghost = nreal, nghost
        self.array = "array:" + name
        for p in props:
            setattr(self, p, Vals([real("%s_%s_%d" % (name, p, i))
                                   for i in range((nreal + nghost) *
                                                  STRIDES.get(p, 1))]))
        self.props = list(props)

    def size(self, real=False):
        return self.nreal if real else self.nreal + self.nghost

    def snapshot(self):
        return dict((p, list(getattr(self, p).data)) for p in self.props)


def stepper_props(stepper):
    names = set()
    for m in dir(stepper):
        if STAGE.match(m):
            for a in inspect.getfullargspec(getattr(stepper, m)).args[1:]:
                if a.startswith("d_") and a != "d_idx":
                    names.add(a[2:])
    return sorted(names)


class Events(list):
    def ev(self, *a):
        self.append(tuple(a))


class RefIntegrator(object):
    """documented primitives, literally"""

    def __init__(self, integ, wrappers, events):
        self._integ = integ
        self._w = wrappers
        self._ev = events
        self.t = self.dt = self.orig_t = None
        n_stages = [int(m[5:]) for s in integ.steppers.values()
                    for m in dir(s) if re.match(r"^stage\d+$", m)]
        for k in range(1, (max(n_stages) if n_stages else 0) + 3):
            setattr(self, "stage%d" % k,
                    lambda k=k: self._stage("stage%d" % k))

    def initialize(self):
        self._stage("initialize")

    def _stage(self, method):
        for dest in sorted(self._integ.steppers):
            st = self._integ.steppers[dest]
            w = self._w[dest]
            if hasattr(st, "py_" + method):
                self._ev.ev("py_" + method, dest, w.array, self.t, self.dt)
            if not hasattr(st, method):
                continue
            fn = getattr(st, method)
            names = inspect.getfullargspec(fn).args[1:]
            for i in range(w.size(real=True)):
                args = []
                for a in names:
                    if a == "d_idx":
                        args.append(i)
                    elif a == "t":
                        args.append(self.t)
                    elif a == "dt":
                        args.append(self.dt)
                    elif a.startswith("d_"):
                        args.append(getattr(w, a[2:]).data)
                    else:
                        raise KeyError(a)
                self._ev.ev("stepper", dest, method,
                            i if "d_idx" in names else None, self.t, self.dt)
                fn(*args)

    def compute_accelerations(self, index=0, update_nnps=True):
        if update_nnps:
            self._ev.ev("nnps.update")
        self._ev.ev("compute", index, self.t, self.dt)

    def update_domain(self):
        self._ev.ev("update_domain")

    def do_post_stage(self, stage_dt, stage):
        self.t = self.orig_t + stage_dt
        self._ev.ev("post_stage", self.t, self.dt, stage)


def all_classes(base_mod, base_name, modules):
    base = getattr(importlib.import_module(base_mod), base_name)
    out = []
    for m in modules:
        try:
            mod = importlib.import_module(m)
        except Exception:
            continue
        for n, C in inspect.getmembers(mod, inspect.isclass):
            if C.__module__ == m and issubclass(C, base) and C is not base:
                out.append((m, n))
    return sorted(set(out))


def integ_modules():
    from vf.props.c20 import all_modules
    return all_modules()


REPLAY = common.REPLAY_HEADER + '''
from vf.props import c04
sys.exit(common.replay_exit(c04.replay(%(imod)r, %(icls)r, %(smod)r, %(scls)r, %(two)r, %(nreal)d, %(nghost)d)))
'''


def generate(imod, icls, smod, scls, two):
    common.use_repo_with_build()
    from pysph.base.utils import get_particle_array
    from pysph.base.kernels import CubicSpline
    from pysph.sph.acceleration_eval import AccelerationEval
    from pysph.sph.acceleration_eval_cython_helper import \
        AccelerationEvalCythonHelper
    from pysph.sph.integrator_cython_helper import IntegratorCythonHelper
    from pysph.sph.basic_equations import SummationDensity
    I = getattr(importlib.import_module(imod), icls)
    S = getattr(importlib.import_module(smod), scls)
    names = ["fluid", "solid"] if two else ["fluid"]
    steppers = dict((n, S()) for n in names)
    integ = I(**steppers)
    props = stepper_props(steppers["fluid"])
    pas = []
    for n in names:
        pa = get_particle_array(name=n, x=[0.0, 1.0])
        for p in props:
            if p not in pa.properties:
                pa.add_property(p)
        pas.append(pa)
    ae = AccelerationEval(pas, [SummationDensity(dest="fluid",
                                                 sources=["fluid"])],
                          CubicSpline(dim=1), backend="cython")
    aeh = AccelerationEvalCythonHelper(ae)
    ih = IntegratorCythonHelper(integ, aeh)
    code = ih.get_code()
    ns = gen2py.load(code)
    return integ, names, props, ns, code


def run_pair(integ, names, props, ns, nreal, nghost, events_g, events_r,
             t, dt, make=None):
    """returns (generated wrappers, reference wrappers)"""
    make = make or ArrWrapper
    wg = dict((n, make(n, i, nreal, nghost, props, "g"))
              for i, n in enumerate(names))
    wr = dict((n, make(n, i, nreal, nghost, props, "r"))
              for i, n in enumerate(names))
    # ---- generated (lowered) integrator with the real python methods
    IC = ns["Integrator"]
    obj = IC.__new__(IC)
    # cdef double attributes are zero-initialised in C
    obj.t = obj.dt = obj.orig_t = 0.0
    for n in names:
        setattr(obj, n, wg[n])
        SC = ns[type(integ.steppers[n]).__name__]
        inst = SC(**integ.steppers[n].__dict__)
        setattr(obj, n + "_stepper", _RecStepper(inst, events_g, n, obj))
    obj.steppers = dict(
        (n, _PyHooks(integ.steppers[n], events_g, n, obj)) for n in names)
    obj._post_stage_callback = lambda tt, d, st: events_g.ev(
        "post_stage", tt, d, st)
    obj.integrator = integ
    integ.c_integrator = obj
    integ.parallel_manager = None
    integ.nnps = types.SimpleNamespace(
        update=lambda: events_g.ev("nnps.update"),
        update_domain=lambda: events_g.ev("update_domain"))

    class AE(object):
        def __init__(self, idx):
            self.idx = idx

        def compute(self, tt, d):
            events_g.ev("compute", self.idx, tt, d)
    integ.acceleration_evals = [AE(i) for i in range(4)]
    obj.step(t, dt)
    # ---- reference: the real one_timestep on the literal primitives
    ref = RefIntegrator(integ, wr, events_r)
    ref.orig_t = ref.t = t
    ref.dt = dt
    type(integ).one_timestep(ref, t, dt)
    return wg, wr


class _RecStepper(object):
    def __init__(self, inst, events, dest, obj):
        self.inst, self.events, self.dest, self.obj = inst, events, dest, obj

    def __getattr__(self, m):
        fn = getattr(self.inst, m)

        names = inspect.getfullargspec(fn).args[1:]

        def call(*args):
            di = int(args[names.index("d_idx")]) if "d_idx" in names else None
            self.events.ev("stepper", self.dest, m, di, self.obj.t,
                           self.obj.dt)
            return fn(*args)
        return call


class _PyHooks(object):
    def __init__(self, st, events, dest, obj):
        self.st, self.events, self.dest, self.obj = st, events, dest, obj

    def __getattr__(self, m):
        if not hasattr(self.st, m):
            raise AttributeError(m)

        def call(arr, tt, d):
            self.events.ev(m, self.dest, arr, tt, d)
        return call


def compare(c, eg, er, wg, wr, prove):
    """returns None or a description of the first disagreement"""
    if len(eg) != len(er):
        return "event counts differ: generated %d vs documented %d\n%r\n%r" \
            % (len(eg), len(er), eg[:12], er[:12])
    pairs = []
    for i, (a, b) in enumerate(zip(eg, er)):
        if len(a) != len(b):
            return "event %d: %r vs %r" % (i, a, b)
        for x, y in zip(a, b):
            if is_sym(x) or is_sym(y):
                pairs.append((x, y, "event %d %r vs %r" % (i, a, b)))
            elif x != y:
                return "event %d: %r vs %r" % (i, a, b)
    for n in wg:
        sg, sr = wg[n].snapshot(), wr[n].snapshot()
        for p in sg:
            for k, (x, y) in enumerate(zip(sg[p], sr[p])):
                # same symbolic inputs were named per wrapper: map r-> g
                pairs.append((x, y, "final %s.%s[%d]" % (n, p, k)))
    return prove(pairs)


def unit_pair(imod, icls, smod, scls, two=False):
    stats = Stats()
    out = dict(unit="%s x %s%s" % (icls, scls, " (two arrays)" if two
                                   else ""), obligations=0, discharged=0,
               undecided=[])
    common.use_repo_with_build()
    I_ = getattr(importlib.import_module(imod), icls)
    S_ = getattr(importlib.import_module(smod), scls)
    used = set(re.findall(r"self\.(initialize|stage\d+)\(",
                          inspect.getsource(I_.one_timestep)))
    lacking = sorted(m for m in used if not hasattr(S_, m))
    if lacking:
        out["skipped"] = "not a documented pairing: %s calls %s which %s " \
            "does not define" % (icls, lacking, scls)
        out["stats"] = stats.as_dict()
        return out
    try:
        integ, names, props, ns, code = generate(imod, icls, smod, scls, two)
    except Exception as e:
        out["skipped"] = "not generatable: %r" % (e,)
        out["stats"] = stats.as_dict()
        return out
    smodule = importlib.import_module(smod)
    STRIDES.clear()
    STRIDES.update(prop_strides(S_))
    if STRIDES:
        out["strides"] = dict(STRIDES)
    ncex = [0]

    def run(c):
        nreal = integer("nreal")
        nghost = integer("nghost")
        c.assume_unchecked(z3.And(nreal.t >= 0, nreal.t <= 2, nghost.t >= 0,
                                  nghost.t <= 1))
        nr = c.concretize(nreal.t, [0, 1, 2])
        ng = c.concretize(nghost.t, [0, 1])
        t, dt = real("t"), real("dt")
        c.assume_unchecked(dt.t > 0)
        eg, er = Events(), Events()
        wg, wr = run_pair(integ, names, props, ns, nr, ng, eg, er, t, dt)
        return eg, er, wg, wr, nr, ng

    with patched_globals(smodule, dict(MATH_TABLE)):
        for path in explore(run, stats=stats, max_paths=400):
            if isinstance(path.exc, ZeroDivisionError) or (
                    isinstance(path.exc, ValueError) and
                    "math domain error" in str(path.exc)):
                continue      # the stepper's own arithmetic leaves its domain
            if isinstance(path.exc, TypeError) and \
                    "interpreted as an integer" in str(path.exc):
                # the stepper indexes with a property value (body ids): the
                # real-valued model arrays cannot encode it
                out["skipped"] = "not encodable: %s indexes an array with " \
                    "a property value (%s)" % (scls, path.exc)
                break
            if path.exc is not None:
                out.setdefault("harness_errors", []).append(
                    "%s: %r" % (out["unit"], path.exc))
                break
            eg, er, wg, wr, nr, ng = path.value
            c = path.ctx

            def prove(pairs):
                # the two wrappers use identically named input symbols, so
                # equal computations give formally equal terms
                out["obligations"] += 1
                r, model = c.prove_eqs([(a, b) for a, b, _ in pairs],
                                       timeout_ms=20000)
                if r == "unsat":
                    out["discharged"] += 1
                    return None
                if r == "unknown":
                    out["undecided"].append("values on path nreal=%d" % nr)
                    return None
                for a, b, what in pairs:
                    if not z3.is_true(model.eval(to_real(a) == to_real(b),
                                                 True)):
                        return "%s: generated %s vs documented %s" % (
                            what, a, b)
                return "values differ"
            if len(eg) != len(er) or any(
                    len(a) != len(b) or any(
                        (not is_sym(x) and not is_sym(y) and x != y)
                        for x, y in zip(a, b)) for a, b in zip(eg, er)):
                out["obligations"] += 1
            d = compare(c, eg, er, wg, wr, prove)
            if d is None:
                continue
            ncex[0] += 1
            p = common.write_replay(
                PID, "%s_%s_%d_%d" % (icls, scls, int(two), ncex[0]),
                REPLAY % dict(imod=imod, icls=icls, smod=smod, scls=scls,
                              two=two, nreal=nr, nghost=ng))
            common.triage(PID, out, "%s: %s" % (out["unit"], d[:300]), p,
                          dict(unit="integrator", integrator=icls,
                               stepper=scls))
            if ncex[0] >= 2:
                break
    out["stats"] = stats.as_dict()
    out["sample"] = dict(unit=out["unit"], props=props[:8])
    return out


def replay(imod, icls, smod, scls, two, nreal, nghost):
    """concrete re-run (floats) of generated-lowered vs documented"""
    integ, names, props, ns, code = generate(imod, icls, smod, scls, two)
    import random
    rnd = random.Random(1)
    eg, er = Events(), Events()

    def mk(name, index, nr, ng, props_, tag):
        w = ArrWrapper(name, index, 0, 0, [], tag)
        w.nreal, w.nghost, w.props = nr, ng, list(props_)
        r2 = random.Random(sum(map(ord, name)))
        for p in props_:
            setattr(w, p, Vals([r2.uniform(0.5, 2.0)
                                for _ in range(nr + ng)]))
        return w
    wg, wr = run_pair(integ, names, props, ns, nreal, nghost, eg, er,
                      0.25, 0.125, make=mk)
    print("generated :", eg[:20])
    print("documented:", er[:20])
    if list(eg) != list(er):
        for i, (a, b) in enumerate(zip(eg, er)):
            if a != b:
                return "event %d: generated %r vs documented %r" % (i, a, b)
        return "event counts differ: %d vs %d" % (len(eg), len(er))
    for n in wg:
        sg, sr = wg[n].snapshot(), wr[n].snapshot()
        for p in sg:
            for k, (x, y) in enumerate(zip(sg[p], sr[p])):
                if abs(x - y) > 1e-12 * (abs(x) + abs(y) + 1e-300):
                    return "final %s.%s[%d]: generated %r vs documented %r" \
                        % (n, p, k, x, y)
    return None


def main():
    t = common.tier()
    common.use_repo_with_build()
    mods = integ_modules()
    integrators = all_classes("pysph.sph.integrator", "Integrator",
                              ["pysph.sph.integrator"] + mods)
    steppers = all_classes("pysph.sph.integrator_step", "IntegratorStep",
                           ["pysph.sph.integrator_step"] + mods)
    rep = common.Report(
        PID, "translation_validation",
        "the generated integrator module (real helper + mako template) is "
        "lowered to Python and step(t, dt) executed on symbolic arrays with "
        "the real python compute_accelerations/update_domain; compared with "
        "the real one_timestep run on the documented primitives; z3 decides "
        "equality of the values, events are compared per path")
    import pysph.sph.integrator as IM
    import pysph.sph.integrator_cython_helper as IH
    rep.functions = [common.func_ref(f) for f in (
        IM.Integrator.compute_accelerations, IM.Integrator.update_domain,
        IH.IntegratorCythonHelper.get_timestep_code,
        IH.IntegratorCythonHelper.get_stepper_loop,
        IH.IntegratorCythonHelper.get_py_stage_code)] + [
        "pysph/sph/integrator_cython.mako sha=%s" % common.sha_of(
            common.REPO + "/pysph/sph/integrator_cython.mako")]
    units = []
    if t == "quick":
        core_s = [s for s in steppers
                  if s[0] == "pysph.sph.integrator_step"]
        core_i = [i for i in integrators if i[0] == "pysph.sph.integrator"]
        for (im, ic) in core_i:
            for (sm, sc) in core_s:
                units.append(("vf.props.c04", "unit_pair",
                              dict(imod=im, icls=ic, smod=sm, scls=sc)))
        for (im, ic) in integrators:
            if (im, ic) not in core_i:
                units.append(("vf.props.c04", "unit_pair",
                              dict(imod=im, icls=ic,
                                   smod="pysph.sph.integrator_step",
                                   scls="WCSPHStep")))
        units.append(("vf.props.c04", "unit_pair",
                      dict(imod="pysph.sph.integrator", icls="PECIntegrator",
                           smod="pysph.sph.integrator_step", scls="WCSPHStep",
                           two=True)))
    else:
        for (im, ic) in integrators:
            for (sm, sc) in steppers:
                units.append(("vf.props.c04", "unit_pair",
                              dict(imod=im, icls=ic, smod=sm, scls=sc)))
                units.append(("vf.props.c04", "unit_pair",
                              dict(imod=im, icls=ic, smod=sm, scls=sc,
                                   two=True)))
    rep.bounds = dict(integrators=["%s.%s" % i for i in integrators],
                      steppers=["%s.%s" % s for s in steppers],
                      pairs=len(units), real_particles="0..2",
                      ghosts="0..1", steps=1)
    rep.assumptions = [
        "the Cython->Python lowering (vf/gen2py.py) is trusted; C integer "
        "semantics of declared ints is not reproduced",
        "arrays hold exact-real symbols; NNPS, acceleration evaluators and "
        "the post-stage callback are event recorders",
        "the reference object implements initialize/stageN/"
        "compute_accelerations/update_domain/do_post_stage as documented in "
        "Integrator.one_timestep's docstring and the property statement"]
    rep.outside = ["GPU integrator helper", "several consecutive steps "
                   "(state carried by the arrays is covered by the "
                   "arbitrary symbolic pre-state)", "OpenMP"]
    common.run_units(rep, units)
    rep.extra = dict(programs=len([u for u in rep.units
                                   if not u.get("skipped")]) or 1,
                     disagreements_checked=sum(
                         len(u.get("violations", [])) for u in rep.units))
    return rep.finish()


if __name__ == "__main__":
    sys.exit(main())
