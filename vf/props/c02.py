"""C02 -- compiled equations compute what the Python equation source says
(translation validation on the generated source).

For every shipped Equation class the real code generator emits the Cython
module for the problem {dest a, sources a, b}; it is lowered to Python
(vf/gen2py.py).
T1 (method level): each hook method of the generated class and of the
Python class run on the SAME symbolic arguments (exact reals; sqrt/exp/pow
shared symbolic functions; kernel an abstract radial kernel); z3 decides
that every array cell written and every return value agree.
T2 (wiring): the lowered compute() runs for one destination particle and
one neighbour with the equation replaced by a recorder; z3 decides that
every d_*/s_* argument is the documented array and every pre-computed pair
symbol passed equals its documented formula."""
import os
import sys
import inspect
import importlib

import z3

from vf import common, gen2py, pairsim
from vf.symx import (explore, Stats, real, SReal, to_real, patched_globals,
                     MATH_TABLE, is_sym, sym_sqrt, integer)

PID = "C02"
HOOKS = ("initialize", "initialize_pair", "loop_all", "loop", "post_loop")
VEC = ("XIJ", "VIJ", "DWIJ", "DWI", "DWJ")
SCAL = ("HIJ", "R2IJ", "RIJ", "RHOIJ", "RHOIJ1", "EPS", "WIJ", "WI", "WJ",
        "WDP", "GHI", "GHJ", "GHIJ", "WDASHI", "WDASHJ", "WDASHIJ", "t", "dt")


def documented(sym, d, s, K):
    """documented formula of a pre-computed pair symbol; d(name)/s(name)
    give the destination / source particle's value"""
    H = lambda: 0.5 * (d("h") + s("h"))          # noqa
    X = lambda: [d("x") - s("x"), d("y") - s("y"), d("z") - s("z")]  # noqa
    R2 = lambda: sum((c * c for c in X()), 0.0)  # noqa
    R = lambda: sym_sqrt(R2())                   # noqa

    def grad(h):
        g = [0.0, 0.0, 0.0]
        K.gradient(X(), R(), h, g)
        return g
    table = {
        "HIJ": H, "XIJ": X, "R2IJ": R2, "RIJ": R,
        "VIJ": lambda: [d("u") - s("u"), d("v") - s("v"), d("w") - s("w")],
        "RHOIJ": lambda: 0.5 * (d("rho") + s("rho")),
        "RHOIJ1": lambda: 1.0 / (0.5 * (d("rho") + s("rho"))),
        "EPS": lambda: 0.01 * H() * H(),
        "WIJ": lambda: K.kernel(X(), R(), H()),
        "WI": lambda: K.kernel(X(), R(), d("h")),
        "WJ": lambda: K.kernel(X(), R(), s("h")),
        "WDP": lambda: K.kernel(X(), K.get_deltap() * H(), H()),
        "DWIJ": lambda: grad(H()), "DWI": lambda: grad(d("h")),
        "DWJ": lambda: grad(s("h")),
        "GHI": lambda: K.gradient_h(X(), R(), d("h")),
        "GHJ": lambda: K.gradient_h(X(), R(), s("h")),
        "GHIJ": lambda: K.gradient_h(X(), R(), H()),
        "WDASHI": lambda: K.dwdq(R(), d("h")),
        "WDASHJ": lambda: K.dwdq(R(), s("h")),
        "WDASHIJ": lambda: K.dwdq(R(), H()),
    }
    return table[sym]()


class Buf(object):
    """named symbolic array: entries created on first read"""

    def __init__(self, tag):
        self.tag = tag
        self.vals = {}
        self.written = set()

    @property
    def data(self):
        return self

    INT_PROPS = ("tag", "gid", "pid", "orig_idx", "ioid", "body_id",
                 "converged")

    def __getitem__(self, i):
        i = int(i)
        if i not in self.vals:
            nm = "%s_%s_%d" % (self.tag[0], self.tag[1], i)
            if self.tag[1] == "orig_idx":
                self.vals[i] = 0
            elif self.tag[1] in self.INT_PROPS:
                self.vals[i] = integer(nm)
            else:
                self.vals[i] = real(nm)
        return self.vals[i]

    def __setitem__(self, i, v):
        i = int(i)
        self.vals[i] = v
        self.written.add(i)


def generate(C, modname):
    common.use_repo_with_build()
    from pysph.base.utils import get_particle_array
    from pysph.base.kernels import CubicSpline
    from pysph.sph.acceleration_eval import AccelerationEval
    from pysph.sph.acceleration_eval_cython_helper import \
        AccelerationEvalCythonHelper
    from pysph.sph.equation import CythonGroup
    from vf.props.c20 import instantiate
    hooks = [m for m in ("loop", "loop_all", "initialize_pair")
             if hasattr(C, m)]
    srcs = ["a", "b"] if hooks else None
    eq = instantiate(C, "a", srcs)
    g = CythonGroup(equations=[eq])
    sa, da = g.get_array_names()
    names = set(x[2:] for x in sa | da)
    pas = []
    for n in ("a", "b"):
        pa = get_particle_array(name=n, x=[0.0, 1.0])
        for p in names:
            if p not in pa.properties and p not in pa.constants:
                pa.add_property(p)
        pas.append(pa)
    ae = AccelerationEval(pas, [eq], CubicSpline(dim=2), backend="cython")
    code = AccelerationEvalCythonHelper(ae).get_code()
    ns = gen2py.load(code)
    return eq, ae, ns


REPLAY = common.REPLAY_HEADER + '''
from vf.props import c02
sys.exit(common.replay_exit(c02.replay(%(mod)r, %(cls)r, %(hook)r, %(vals)r)))
'''


def _args_for(fn, bufs, scal, kernel):
    names = inspect.getfullargspec(fn).args
    if names and names[0] == "self":
        names = names[1:]
    args = []
    for n in names:
        if n == "d_idx":
            args.append(1)
        elif n == "s_idx":
            args.append(2)
        elif n.startswith("d_") or n.startswith("s_"):
            args.append(bufs.setdefault(n, Buf((n[0], n[2:]))))
        elif n in VEC:
            args.append(list(scal[n]))
        elif n == "SPH_KERNEL":
            args.append(kernel)
        elif n == "NBRS":
            args.append([0, 2])
        elif n == "N_NBRS":
            args.append(2)
        else:
            args.append(scal[n] if n in scal else scal.setdefault(
                n, real("arg_" + n)))
    return names, args


def unit_class(modname, clsname, timeout_ms=20000):
    stats = Stats()
    out = dict(unit="%s.%s" % (modname.replace("pysph.sph.", ""), clsname),
               obligations=0, discharged=0, undecided=[], hooks=[])
    common.use_repo_with_build()
    C = getattr(importlib.import_module(modname), clsname)
    try:
        eq, ae, ns = generate(C, modname)
    except Exception as e:
        out["skipped"] = "not generatable: %s" % (str(e)[:120],)
        out["stats"] = stats.as_dict()
        return out
    module = importlib.import_module(modname)
    kernel = pairsim.RadialKernel()
    GC = ns[clsname]
    ncex = [0]
    import pysph.sph.wc.linalg as L
    mods = [module, L]
    for hook in HOOKS + ("converged",):
        if not hasattr(C, hook) or not hasattr(GC, hook):
            continue
        out["hooks"].append(hook)

        def run(c, hook=hook):
            scal = {}
            for n in VEC:
                scal[n] = [real("%s_%d" % (n, i)) for i in range(3)]
            for n in SCAL:
                scal[n] = real(n)
            for n in ("HIJ", "R2IJ", "RIJ", "RHOIJ", "t", "dt"):
                c.assume_unchecked(scal[n].t >= 0)
            pb, gb = {}, {}
            pyeq = eq
            geq = GC(**eq.__dict__)
            pn, pargs = _args_for(getattr(pyeq, hook), pb, scal, kernel)
            gn, gargs = _args_for(getattr(pyeq, hook), gb, scal, kernel)
            rp = getattr(pyeq, hook)(*pargs)
            rg = getattr(geq, hook)(*gargs)
            return pb, gb, rp, rg, pargs, gargs, pn

        with patched_globals(mods, dict(MATH_TABLE)):
            for path in explore(run, stats=stats, max_paths=200,
                                fork_minmax=False, deadline_s=60,
                                feas_timeout_ms=3000):
                c = path.ctx
                if isinstance(path.exc, (ZeroDivisionError, ValueError)):
                    continue
                if isinstance(path.exc, (NameError, TypeError,
                                         gen2py.NotEncodable)):
                    # compiled helper (linalg3) or pointer arithmetic the
                    # lowering does not model: stated, not skipped silently
                    out.setdefault("not_encodable", []).append(
                        "%s.%s: %r" % (clsname, hook, path.exc))
                    break
                if path.exc is not None:
                    out.setdefault("harness_errors", []).append(
                        "%s.%s: %r" % (clsname, hook, path.exc))
                    break
                pb, gb, rp, rg, pargs, gargs, pn = path.value
                pairs = []
                labels = []
                for n in set(pb) | set(gb):
                    a, b = pb.get(n), gb.get(n)
                    if a is None or b is None:
                        pairs.append((1.0, 0.0))
                        labels.append("array %s used by one side only" % n)
                        continue
                    for i in a.written | b.written:
                        pairs.append((a[i], b[i]))
                        labels.append("%s[%d]" % (n, i))
                # vector arguments modified in place
                for n, x, y in zip(pn, pargs, gargs):
                    if isinstance(x, list) and not isinstance(x, Buf):
                        for i, (u, v) in enumerate(zip(x, y)):
                            if is_sym(u) or is_sym(v):
                                pairs.append((u, v))
                                labels.append("%s[%d]" % (n, i))
                if rp is not None or rg is not None:
                    pairs.append((rp if rp is not None else 0.0,
                                  rg if rg is not None else 1e9))
                    labels.append("return value")
                if not pairs:
                    continue
                out["obligations"] += 1
                r, model = c.prove_eqs(pairs, timeout_ms=timeout_ms)
                if r == "unsat":
                    out["discharged"] += 1
                elif r == "sat":
                    bad = [l for (a, b), l in zip(pairs, labels)
                           if not z3.is_true(model.eval(
                               to_real(a) == to_real(b), True))]
                    ncex[0] += 1
                    vals = dict((d.name(), str(model[d]))
                                for d in model.decls()
                                if not d.name().startswith("sqrt!"))
                    p = common.write_replay(
                        PID, "%s_%s_%d" % (clsname, hook, ncex[0]),
                        REPLAY % dict(mod=modname, cls=clsname, hook=hook,
                                      vals=vals))
                    common.triage(PID, out, "%s.%s: generated and python "
                                  "method differ in %s" % (clsname, hook,
                                                           bad[:4]), p,
                                  dict(unit=clsname, hook=hook), soft=True)
                else:
                    out["undecided"].append("%s.%s" % (clsname, hook))
    # ---- T2: wiring of compute() for one destination / one neighbour
    try:
        _wiring(eq, ae, ns, kernel, out, stats, timeout_ms)
    except Exception as e:
        out.setdefault("harness_errors", []).append(
            "%s wiring: %r" % (clsname, e))
    out["stats"] = stats.as_dict()
    out["sample"] = dict(unit=out["unit"], hooks=out["hooks"])
    return out


def _wiring(eq, ae, ns, kernel, out, stats, timeout_ms):
    A = ns["AccelerationEval"]
    clsname = type(eq).__name__
    calls = []

    class Rec(object):
        def __getattr__(self, hook):
            if hook.startswith("__"):
                raise AttributeError(hook)

            def call(*args):
                names = inspect.getfullargspec(getattr(eq, hook)).args[1:]
                # scratch vectors are shared between sources: snapshot
                snap = tuple([a[i] for i in range(3)] if n in VEC else a
                             for n, a in zip(names, args)) \
                    if len(names) == len(args) else args
                calls.append((hook, names, snap, tuple(nnctx)))
                return 1.0
            return call

    class W(object):
        def __init__(self, name, index):
            self.name, self.index = name, index
            self.array = "array:" + name

        def __getattr__(self, prop):
            if prop.startswith("__"):
                raise AttributeError(prop)
            b = Buf((self.name, prop))
            self.__dict__[prop] = b
            return b

        def size(self, real=False):
            return 1

    nnctx = [None, None]

    class NN(object):
        def set_context(self, s, d):
            nnctx[:] = [s, d]

        def get_nearest_neighbors(self, d_idx, nbrs):
            nbrs.data = [0]

        def update_domain(self):
            pass

        def update(self):
            pass

    def run(c):
        del calls[:]
        obj = A.__new__(A)
        ws = dict((n, W(n, i)) for i, n in enumerate(("a", "b")))
        for n, w in ws.items():
            setattr(obj, n, w)
        obj.nnps = NN()
        obj.n_threads = 1
        obj.nbrs = [gen2py.CArray()]
        obj.kernel = kernel
        for e in ae.all_group.equations:
            setattr(obj, e.var_name, Rec())
        obj.all_equations = dict((e.var_name, Rec())
                                 for e in ae.all_group.equations)
        obj.groups = ae.mega_groups
        for n in ("a", "b"):
            for p in ("h", "rho"):
                c.assume_unchecked(getattr(ws[n], p)[0].t > 0)
        obj.compute(real("t"), real("dt"))
        return ws, list(calls)

    for path in explore(run, stats=stats, max_paths=50, deadline_s=60,
                        feas_timeout_ms=3000):
        c = path.ctx
        if isinstance(path.exc, (ZeroDivisionError, ValueError)):
            continue
        if path.exc is not None:
            out.setdefault("harness_errors", []).append(
                "%s wiring: %r" % (clsname, path.exc))
            break
        ws, calls_ = path.value
        seen_src = {}
        for hook, names, args, nctx in calls_:
            if len(names) != len(args):
                out.setdefault("harness_errors", []).append(
                    "%s.%s called with %d args for %d parameters" % (
                        clsname, hook, len(args), len(names)))
                continue
            src = None
            for n, a in zip(names, args):
                if n.startswith("s_") and n != "s_idx" and isinstance(a, Buf):
                    src = a.tag[0]
            pairs, labels = [], []
            if src is not None and hook in ("loop", "loop_all") and \
                    nctx != (ws[src].index, ws["a"].index):
                pairs.append((1.0, 0.0))
                labels.append("neighbours queried with set_context%r, "
                              "documented (source %s=%d, destination a=0)" %
                              (nctx, src, ws[src].index))
            for n, a in zip(names, args):
                if n.startswith("d_") and n != "d_idx":
                    ok = isinstance(a, Buf) and a.tag == ("a", n[2:])
                elif n.startswith("s_") and n != "s_idx":
                    ok = isinstance(a, Buf) and a.tag[1] == n[2:] and \
                        a.tag[0] == src
                elif n in ("XIJ", "VIJ", "DWIJ", "DWI", "DWJ", "HIJ", "R2IJ",
                           "RIJ", "RHOIJ", "RHOIJ1", "EPS", "WIJ", "WI", "WJ",
                           "WDP", "GHI", "GHJ", "GHIJ", "WDASHI", "WDASHJ",
                           "WDASHIJ") and src is not None:
                    d = lambda p: ws["a"].__getattr__(p)[0]      # noqa
                    s = lambda p: getattr(ws[src], p)[0]         # noqa
                    exp = documented(n, d, s, kernel)
                    if isinstance(exp, list):
                        for i in range(3):
                            pairs.append((a[i], exp[i]))
                            labels.append("%s[%d]" % (n, i))
                    else:
                        pairs.append((a, exp))
                        labels.append(n)
                    ok = True
                else:
                    ok = True
                if not ok:
                    pairs.append((1.0, 0.0))
                    labels.append("%s is not the documented array" % n)
            if not pairs:
                continue
            out["obligations"] += 1
            r, model = c.prove_eqs(pairs, timeout_ms=timeout_ms)
            if r == "unsat":
                out["discharged"] += 1
            elif r == "sat":
                bad = [l for (x, y), l in zip(pairs, labels)
                       if not z3.is_true(model.eval(
                           to_real(x) == to_real(y), True))]
                out.setdefault("violations_t2", []).append(bad)
                p = common.write_replay(
                    PID, "%s_wiring_%s" % (clsname, hook),
                    REPLAY % dict(mod=type(eq).__module__, cls=clsname,
                                  hook="wiring:" + ",".join(bad[:3]),
                                  vals={}))
                common.triage(PID, out, "%s.%s: arguments passed by the "
                              "generated compute() differ from the "
                              "documented ones: %s" % (clsname, hook,
                                                       bad[:4]), p,
                              dict(unit=clsname, hook="wiring"), soft=True)
            else:
                out["undecided"].append("%s.%s wiring" % (clsname, hook))


def replay(mod, cls, hook, vals):
    """Differential confirmation on the really compiled module: the
    equation is evaluated for two small arrays through SPHEvaluator and,
    independently, by driving the PYTHON hook methods in the documented
    order with the documented pre-computed formulas and the Python kernel
    class.  Returns a description of the disagreement or None."""
    common.use_repo_with_build()
    import math
    import numpy as np
    from pysph.base.utils import get_particle_array
    from pysph.base.kernels import CubicSpline
    from pysph.sph.equation import CythonGroup
    from pysph.tools.sph_evaluator import SPHEvaluator
    from vf.props.c20 import instantiate
    C = getattr(importlib.import_module(mod), cls)
    hooks = [m for m in ("loop", "loop_all", "initialize_pair")
             if hasattr(C, m)]
    srcs = ["a", "b"] if hooks else None
    eq = instantiate(C, "a", srcs)
    g = CythonGroup(equations=[eq])
    sa, da = g.get_array_names()
    names = sorted(set(x[2:] for x in sa | da))

    def mk(n, xs, seed):
        rng = np.random.RandomState(seed)
        pa = get_particle_array(name=n, x=xs, h=list(rng.uniform(0.5, 0.7,
                                                               len(xs))))
        for p in names:
            if p not in pa.properties and p not in pa.constants:
                pa.add_property(p)
            if p not in ("x", "y", "z", "h", "tag", "gid", "pid"):
                arr = pa.get_carray(p).get_npy_array()
                arr[:] = rng.uniform(0.5, 1.5, size=arr.shape)
        return pa
    K = CubicSpline(dim=1)
    a, b = mk("a", [0.0, 0.4], 1), mk("b", [0.2, 0.7, 0.9], 2)
    ra, rb = mk("a", [0.0, 0.4], 1), mk("b", [0.2, 0.7, 0.9], 2)
    t, dt = 0.3, 0.1
    SPHEvaluator(arrays=[a, b], equations=[instantiate(C, "a", srcs)], dim=1,
                 kernel=K).evaluate(t, dt)
    # ---- python reference in the documented order
    arrs = {"a": ra, "b": rb}

    def arr(pa, p):
        return pa.get_carray(p).get_npy_array()

    def call(meth, i, j, src):
        fn = getattr(eq, meth)
        names_ = inspect.getfullargspec(fn).args[1:]
        args = []
        d = lambda p: float(arr(ra, p)[i])                     # noqa
        s_ = (lambda p: float(arr(src, p)[j])) if src is not None and \
            j is not None else None
        for n in names_:
            if n == "d_idx":
                args.append(i)
            elif n == "s_idx":
                args.append(j)
            elif n.startswith("d_"):
                args.append(arr(ra, n[2:]))
            elif n.startswith("s_"):
                args.append(arr(src, n[2:]))
            elif n == "t":
                args.append(t)
            elif n == "dt":
                args.append(dt)
            elif n == "SPH_KERNEL":
                args.append(K)
            elif n in ("NBRS", "N_NBRS"):
                nb = nbrs(i, src)
                args.append(np.array(nb, dtype=np.uint32) if n == "NBRS"
                            else len(nb))
            else:
                args.append(documented_numeric(n, d, s_, K))
        return fn(*args)

    def nbrs(i, src):
        out = []
        for j in range(len(arr(src, "x"))):
            r = abs(arr(ra, "x")[i] - arr(src, "x")[j])
            if r < 2.0 * max(arr(ra, "h")[i], arr(src, "h")[j]):
                out.append(j)
        return out
    n = len(arr(ra, "x"))
    if hasattr(eq, "initialize"):
        for i in range(n):
            call("initialize", i, None, None)
    if eq.no_source and hasattr(eq, "loop"):
        for i in range(n):
            call("loop", i, None, None)
    if not eq.no_source:
        for sname in eq.sources:
            src = arrs[sname]
            if hasattr(eq, "initialize_pair"):
                for i in range(n):
                    call("initialize_pair", i, 0, src)
            for i in range(n):
                if hasattr(eq, "loop_all"):
                    call("loop_all", i, None, src)
                if hasattr(eq, "loop"):
                    for j in nbrs(i, src):
                        call("loop", i, j, src)
    if hasattr(eq, "post_loop"):
        for i in range(n):
            call("post_loop", i, None, None)
    bad = None
    for p in names:
        if p in ra.properties:
            x, y = arr(a, p), arr(ra, p)
            if not np.allclose(x, y, rtol=1e-9, atol=1e-12, equal_nan=True):
                bad = "property %s: compiled %r, python semantics %r" % (
                    p, x.tolist(), y.tolist())
                break
    print("checked", cls, "properties", names)
    if bad is None and hook.startswith("wiring:"):
        # the equation's own parameters may leave the symbol unused (WDP
        # without tensile correction): probe the symbols themselves
        syms = [x.split("[")[0] for x in hook[7:].split(",")]
        bad = replay_probe(syms)
    return bad


SCALARS = ("HIJ", "R2IJ", "RIJ", "RHOIJ", "RHOIJ1", "EPS", "WIJ", "WI", "WJ",
           "WDP", "GHI", "GHJ", "GHIJ", "WDASHI", "WDASHJ", "WDASHIJ")
VECTORS = ("XIJ", "VIJ", "DWIJ", "DWI", "DWJ")


def replay_probe(symbols):
    """A probe equation that accumulates the named pre-computed symbols into
    destination properties goes through the real code generator and
    compiler; the sums are compared with the documented formulas evaluated
    with the Python kernel class over the same neighbours."""
    common.use_repo_with_build()
    import tempfile
    import shutil
    import numpy as np
    from pysph.base.utils import get_particle_array
    from pysph.base.kernels import Gaussian
    from pysph.tools.sph_evaluator import SPHEvaluator
    symbols = [x for x in symbols if x in SCALARS + VECTORS]
    if not symbols:
        return None
    slots = []
    for sym in symbols:
        if sym in VECTORS:
            slots += [(sym, k, "pr_%s_%d" % (sym.lower(), k))
                      for k in range(3)]
        else:
            slots.append((sym, None, "pr_%s" % sym.lower()))
    src = ["from pysph.sph.equation import Equation", "",
           "class VerifProbe(Equation):",
           "    def initialize(self, d_idx, %s):" % ", ".join(
               "d_" + p for _, _, p in slots)]
    src += ["        d_%s[d_idx] = 0.0" % p for _, _, p in slots]
    src += ["    def loop(self, d_idx, s_idx, %s, %s):" % (
        ", ".join("d_" + p for _, _, p in slots), ", ".join(symbols))]
    for sym, k, p in slots:
        src.append("        d_%s[d_idx] += %s" % (
            p, sym if k is None else "%s[%d]" % (sym, k)))
    d_ = tempfile.mkdtemp(prefix="pysph-c02-probe-", dir="/var/tmp")
    try:
        with open(os.path.join(d_, "verif_probe_eq.py"), "w") as fp:
            fp.write("\n".join(src) + "\n")
        sys.path.insert(0, d_)
        import verif_probe_eq
        rng = np.random.RandomState(5)

        def mk(n, npts):
            pa = get_particle_array(
                name=n, x=rng.uniform(0, 1, npts), y=rng.uniform(0, 1, npts),
                z=rng.uniform(0, 1, npts), h=rng.uniform(0.3, 0.45, npts),
                u=rng.uniform(-1, 1, npts), v=rng.uniform(-1, 1, npts),
                w=rng.uniform(-1, 1, npts), rho=rng.uniform(0.5, 1.5, npts),
                m=1.0)
            for _, _, p in slots:
                pa.add_property(p)
            return pa
        a, b = mk("a", 6), mk("b", 9)
        K = Gaussian(dim=3)
        SPHEvaluator(arrays=[a, b], equations=[verif_probe_eq.VerifProbe(
            dest="a", sources=["a", "b"])], dim=3, kernel=K).evaluate(0.3,
                                                                      0.1)
        bad = None
        for i in range(6):
            exp = dict((p, 0.0) for _, _, p in slots)
            for srcpa in (a, b):
                for j in range(srcpa.get_number_of_particles()):
                    dx = [a.x[i] - srcpa.x[j], a.y[i] - srcpa.y[j],
                          a.z[i] - srcpa.z[j]]
                    r = sum(q * q for q in dx) ** 0.5
                    if r >= K.radius_scale * max(a.h[i], srcpa.h[j]):
                        continue
                    d = lambda q: float(getattr(a, q)[i])          # noqa
                    s_ = lambda q: float(getattr(srcpa, q)[j])     # noqa
                    for sym in symbols:
                        val = documented_numeric(sym, d, s_, K)
                        for sy, k, p in slots:
                            if sy == sym:
                                exp[p] += val if k is None else val[k]
            for _, _, p in slots:
                got = float(getattr(a, p)[i])
                if abs(got - exp[p]) > 1e-9 * (1 + abs(exp[p])):
                    bad = "probe equation: sum of %s over the neighbours " \
                        "of a[%d] is %r in the compiled module, %r by the " \
                        "documented formula" % (p[3:].upper(), i, got, exp[p])
        return bad
    finally:
        if d_ in sys.path:
            sys.path.remove(d_)
        sys.modules.pop("verif_probe_eq", None)
        shutil.rmtree(d_, ignore_errors=True)


def documented_numeric(sym, d, s, K):
    import math
    from vf import symx
    saved = symx.sym_sqrt

    class KK(object):
        kernel = staticmethod(K.kernel)
        dwdq = staticmethod(K.dwdq)
        gradient_h = staticmethod(K.gradient_h)
        get_deltap = staticmethod(K.get_deltap)

        @staticmethod
        def gradient(x, r, h, g):
            K.gradient(x, r, h, g)
    return documented(sym, d, s, KK)


def classes_of(mods):
    from vf.props.c20 import equation_classes
    out = []
    for m in mods:
        try:
            for C in equation_classes(m):
                out.append((m, C.__name__))
        except Exception:
            pass
    return out


def main():
    t = common.tier()
    common.use_repo_with_build()
    from vf.props.c20 import QUICK_MODULES, all_modules
    mods = QUICK_MODULES if t == "quick" else all_modules()
    rep = common.Report(
        PID, "translation_validation",
        "the generated Cython module of each equation class (real code "
        "generator) is lowered to Python; T1: generated hook methods vs the "
        "python methods on the same symbolic arguments; T2: arguments "
        "passed by the generated compute() vs the documented arrays and "
        "pre-computed formulas; z3 decides equality per path")
    import pysph.sph.equation as EQ
    rep.functions = [common.func_ref(f) for f in (
        EQ.precomputed_symbols, EQ.sort_precomputed,
        EQ.Group._setup_precomputed, EQ.CythonGroup._set_kernel,
        EQ.CythonGroup._get_code, EQ.CythonGroup.get_equation_init,
        EQ.CythonGroup.get_equation_wrappers)]
    cl = classes_of(mods)
    units = [("vf.props.c02", "unit_class", dict(modname=m, clsname=c))
             for m, c in cl]
    rep.bounds = dict(modules=mods, classes=len(cl), problem="destination a, "
                      "sources a and b, one destination particle and one "
                      "neighbour for the wiring check", kernel="abstract "
                      "radial kernel (C08 relates it to the python classes; "
                      "the compiled kernel twin is checked by the T1 method "
                      "comparison of the kernel class is NOT included)",
                      numeric_domain="exact reals; sqrt/exp/pow shared "
                      "symbolic functions")
    rep.assumptions = [
        "Cython->Python lowering (vf/gen2py.py) trusted; C typing of "
        "declared ints and cdivision are not reproduced",
        "constructor arguments as in C20 (1.0 / dim=2)",
        "documented formulas of the pre-computed symbols are transcribed in "
        "vf/props/c02.py:documented from the property statement and "
        "docs/source/design/equations.rst",
        "a counter-example is confirmed only by re-deriving it; the replay "
        "through the compiled module is informational"]
    rep.outside = ["OpenCL/CUDA back-ends", "reduce/py_initialize (host "
                   "python)", "randomly generated equation classes (only "
                   "shipped classes and the C03 family)", "last-bit "
                   "agreement of libm"]
    common.run_units(rep, units)
    rep.extra = dict(programs=len([u for u in rep.units
                                   if not u.get("skipped")]) or 1,
                     disagreements_checked=sum(
                         len(u.get("violations", [])) for u in rep.units))
    return rep.finish()


if __name__ == "__main__":
    sys.exit(main())
