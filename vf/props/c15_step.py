"""C15, iterative part -- one-iteration inductive step for van_leer.

The statement's invariance claims for the iterative contact solvers (p* is
unchanged / u* shifted by a common velocity shift; p* scales with a common
factor on pressures and densities) could not be decided on whole runs (the
Newton iterates nest square roots).  Here the function is cut at its loop:
the statements before the `while`, ONE pass of the loop body from an
arbitrary symbolic iterate P, and the statements after it are taken from the
AST of the real `van_leer` (re-read from /repo on every run) and evaluated
on z3 reals for the original and the transformed problem.  z3 decides

  init : the initial guess is equivariant,
  step : from equivariant iterates (P, k P) the next iterates are equivariant
         and the convergence test gives the same verdict,
  final: from equivariant iterates the returned (p*, u*) are equivariant.

By induction over the iteration count the three give equivariance of a whole
run for every niter, as long as the pressure floor `smallp` never binds and
no divisor vanishes (both are hypotheses of every query; the floor is the
recorded finding about tiny pressures).  Square roots: the i-th sqrt call of
the transformed run is matched with the i-th call of the original run; if z3
proves arg' = f^2 arg for f in {1, k} the root f*s is used, else a fresh
non-negative root.
"""
import ast
import inspect
import textwrap
import time
from fractions import Fraction

import z3

from vf import common

PID = "C15"


class _Cut(Exception):
    pass


class _FloatConst(ast.NodeTransformer):
    def visit_Constant(self, node):
        if isinstance(node.value, float):
            return ast.copy_location(ast.Call(
                func=ast.Name(id="_c", ctx=ast.Load()),
                args=[ast.Constant(value=repr(node.value))], keywords=[]),
                node)
        return node


def _is_declare(st):
    return (isinstance(st, ast.Assign) and isinstance(st.value, ast.Call) and
            getattr(st.value.func, "id", None) == "declare")


def slices(fn):
    """(pre, body, post) statement lists of van_leer; raises _Cut if the
    function no longer has the shape 'straight-line; while; straight-line'
    this unit understands."""
    tree = ast.parse(textwrap.dedent(inspect.getsource(fn))).body[0]
    tree = _FloatConst().visit(tree)
    ast.fix_missing_locations(tree)
    pre, body, post, loop = [], [], [], None
    for st in tree.body:
        if isinstance(st, ast.Expr) and isinstance(st.value, ast.Constant):
            continue
        if isinstance(st, ast.While):
            if loop is not None:
                raise _Cut("two loops")
            loop = st
            continue
        (pre if loop is None else post).append(st)
    if loop is None:
        raise _Cut("no while loop")
    names = {n.id for n in ast.walk(loop.test) if isinstance(n, ast.Name)}
    if names != {"iteration", "niter"}:
        raise _Cut("loop test is not over iteration/niter")
    # pre: drop the admissibility guard (inputs are assumed admissible) and
    # the declare() lines
    pre2 = []
    for st in pre:
        if _is_declare(st):
            continue
        if isinstance(st, ast.If):
            used = {n.id for n in ast.walk(st.test) if isinstance(n, ast.Name)}
            if used <= {"rhol", "rhor", "pl", "pr"}:
                continue
            raise _Cut("unexpected if before the loop")
        if not isinstance(st, ast.Assign):
            raise _Cut("unexpected statement before the loop: %s" %
                       type(st).__name__)
        pre2.append(st)
    conv_seen = False
    for st in loop.body:
        if isinstance(st, ast.Assign):
            if conv_seen:
                raise _Cut("assignment after the convergence test")
            body.append(st)
        elif isinstance(st, ast.If):
            if not (isinstance(st.test, ast.Name) and
                    st.test.id == "converged" and len(st.body) == 1 and
                    isinstance(st.body[0], ast.Break) and not st.orelse):
                raise _Cut("unexpected if in the loop")
            conv_seen = True
        elif isinstance(st, ast.AugAssign):
            if getattr(st.target, "id", None) != "iteration":
                raise _Cut("unexpected augmented assignment")
        else:
            raise _Cut("unexpected statement in the loop: %s" %
                       type(st).__name__)
    if not conv_seen:
        raise _Cut("no 'if converged: break'")
    post2 = []
    for st in post:
        if isinstance(st, ast.Assign):
            if isinstance(st.targets[0], ast.Name):
                post2.append(st)
            elif not (isinstance(st.targets[0], ast.Subscript) and
                      getattr(st.targets[0].value, "id", "") == "result"):
                raise _Cut("unexpected assignment target after the loop")
        elif isinstance(st, ast.If):
            break
        else:
            raise _Cut("unexpected statement after the loop")
    return pre2, body, post2


class V(object):
    """exact-real value that records divisors and max() decisions"""
    __slots__ = ("t", "e")

    def __init__(self, t, e):
        self.t, self.e = t, e

    def _w(self, o):
        if isinstance(o, V):
            return o.t
        if isinstance(o, bool):
            raise TypeError("bool in arithmetic")
        if isinstance(o, int):
            return z3.RealVal(o)
        raise TypeError("unexpected operand %r" % (o,))

    def __add__(s, o): return V(s.t + s._w(o), s.e)
    def __radd__(s, o): return V(s._w(o) + s.t, s.e)
    def __sub__(s, o): return V(s.t - s._w(o), s.e)
    def __rsub__(s, o): return V(s._w(o) - s.t, s.e)
    def __mul__(s, o): return V(s.t * s._w(o), s.e)
    def __rmul__(s, o): return V(s._w(o) * s.t, s.e)
    def __neg__(s): return V(-s.t, s.e)

    def __truediv__(s, o):
        d = s._w(o)
        s.e.divisors.append(d)
        return V(s.t / d, s.e)

    def __rtruediv__(s, o):
        s.e.divisors.append(s.t)
        return V(s._w(o) / s.t, s.e)

    def __lt__(s, o): return s.t < s._w(o)
    def __le__(s, o): return s.t <= s._w(o)
    def __gt__(s, o): return s.t > s._w(o)
    def __ge__(s, o): return s.t >= s._w(o)


class Env(object):
    def __init__(self, tag, partner=None, factors=()):
        self.tag, self.partner, self.factors = tag, partner, factors
        self.divisors, self.floor, self.roots, self.facts = [], [], [], []
        self.sqrt_log, self.lemmas, self.solver_s = [], 0, 0.0
        self.snap, self.done = None, []

    def const(self, s):
        return V(z3.RealVal(Fraction(s)), self)

    def sqrt(self, x):
        i = len(self.sqrt_log)
        if self.partner is not None and i < len(self.partner.sqrt_log):
            arg1, s1 = self.partner.sqrt_log[i]
            for f in self.factors:
                sv = z3.Solver()
                sv.set("timeout", 20000)
                sv.add(*self.hyp())
                sv.add(*self.partner.hyp())
                sv.add(x.t != f * f * arg1)
                t0 = time.time()
                r = str(sv.check())
                self.solver_s += time.time() - t0
                if r == "unsat":
                    self.lemmas += 1
                    out = V(f * s1, self)
                    self.sqrt_log.append((x.t, out.t))
                    return out
        s = z3.Real("root_%s_%d" % (self.tag, i))
        self.facts += [s >= 0, s * s == x.t]
        self.sqrt_log.append((x.t, s))
        return V(s, self)

    def max(self, a, b):
        # one argument is the pressure floor constant
        a, b = (a if isinstance(a, V) else None), (b if isinstance(b, V) else None)
        ca = a is not None and z3.is_rational_value(a.t)
        cb = b is not None and z3.is_rational_value(b.t)
        if a is None or b is None or ca == cb:
            raise _Cut("max() not of the form max(value, constant)")
        val, c = (b, a) if ca else (a, b)
        self.floor.append(val.t > c.t)
        return V(z3.If(val.t >= c.t, val.t, c.t), self)

    def abs(self, a):
        return V(z3.If(a.t >= 0, a.t, -a.t), self)

    def hyp(self):
        return (self.facts + self.floor +
                [d != 0 for d in self.divisors])

    def run(self, stmts, ns, twin=None, dom=(), factors=()):
        """twin: the namespace the ORIGINAL run produced for the same
        statements, one snapshot per statement.  After each assignment of
        this (transformed) run z3 is asked whether the new value is f times
        the original one for f in factors; a proven relation replaces the
        value by that simpler term (lemma chaining keeps the final queries
        small)."""
        ns = dict(ns)
        ns.update(_c=self.const, sqrt=self.sqrt, max=self.max, abs=self.abs)
        for st in stmts:
            mod = ast.Module(body=[st], type_ignores=[])
            exec(compile(mod, "<van_leer slice>", "exec"), ns)
            if self.snap is not None:
                self.snap.append(dict(ns))
            if twin is not None and isinstance(st.targets[0], ast.Name):
                nm = st.targets[0].id
                v2, v1 = ns[nm], twin[len(self.done)].get(nm)
                if isinstance(v2, V) and isinstance(v1, V) and \
                        not z3.is_rational_value(v2.t):
                    for f in factors:
                        sv = z3.Solver()
                        sv.set("timeout", 20000)
                        sv.add(*dom)
                        sv.add(*self.hyp())
                        sv.add(*self.partner.hyp())
                        sv.add(v2.t != f * v1.t)
                        t0 = time.time()
                        r = str(sv.check())
                        self.solver_s += time.time() - t0
                        if r == "unsat":
                            self.lemmas += 1
                            ns[nm] = V(f * v1.t, self)
                            break
            self.done.append(st)
        return ns


def _prove(hyps, claim, timeout_ms):
    sv = z3.Solver()
    sv.set("timeout", timeout_ms)
    sv.add(*hyps)
    sv.add(z3.Not(claim))
    t0 = time.time()
    r = str(sv.check())
    return r, (sv.model() if r == "sat" else None), time.time() - t0


def _reach(hyps, timeout_ms):
    sv = z3.Solver()
    sv.set("timeout", timeout_ms)
    sv.add(*hyps)
    return str(sv.check())


REPLAY = common.REPLAY_HEADER + '''
common.use_repo()
import io, contextlib, math
import pysph.sph.gas_dynamics.riemann_solver as R
kind = %(kind)r
states = %(states)r
def call(rhol, rhor, pl, pr, ul, ur, gamma, niter, tol):
    res = [0.0, 0.0]
    try:
        with contextlib.redirect_stdout(io.StringIO()):
            rc = R.van_leer(rhol, rhor, pl, pr, ul, ur, gamma, niter, tol, res)
    except (ZeroDivisionError, ValueError) as e:
        return "raise:" + type(e).__name__, res
    return rc, res
bad = None
for (rhol, rhor, pl, pr, ul, ur, gamma) in states:
    for tol in (1e-6, 1e-3, 1e-9):
        for niter in (1, 2, 3, 5, 8, 20, 40):
            r1, a = call(rhol, rhor, pl, pr, ul, ur, gamma, niter, tol)
            if kind == "scaling":
                # a power-of-two factor on pressures and densities scales
                # every intermediate of the clean code exactly
                for k in (2.0**20, 2.0**-20, 2.0**40):
                    r2, b = call(k*rhol, k*rhor, k*pl, k*pr, ul, ur, gamma, niter, tol)
                    if r1 != r2:
                        bad = "state %%r niter=%%d tol=%%g: return code %%r, with pressures and densities x %%g: %%r" %% ((rhol, rhor, pl, pr, ul, ur, gamma), niter, tol, r1, k, r2)
                    elif r1 == 0 and a[0] > 1e-6 and (abs(b[0] - k*a[0]) > 1e-12*k*a[0] or abs(b[1] - a[1]) > 1e-12*(abs(a[1]) + abs(ul) + abs(ur) + 1e-300)):
                        bad = "state %%r niter=%%d tol=%%g: (p*, u*) = %%r, with pressures and densities x %%g: %%r" %% ((rhol, rhor, pl, pr, ul, ur, gamma), niter, tol, a, k, b)
                    if bad: break
            else:
                for c in (1.0, -3.0, 100.0):
                    r2, b = call(rhol, rhor, pl, pr, ul + c, ur + c, gamma, niter, tol)
                    if r1 != r2:
                        bad = "state %%r niter=%%d tol=%%g: return code %%r, velocities shifted by %%g: %%r" %% ((rhol, rhor, pl, pr, ul, ur, gamma), niter, tol, r1, c, r2)
                    elif r1 == 0 and (abs(b[0] - a[0]) > 1e-9*abs(a[0]) or abs(b[1] - a[1] - c) > 1e-9*(abs(a[1]) + abs(c) + abs(ul) + abs(ur))):
                        bad = "state %%r niter=%%d tol=%%g: (p*, u*) = %%r, velocities shifted by %%g: %%r" %% ((rhol, rhor, pl, pr, ul, ur, gamma), niter, tol, a, c, b)
                    if bad: break
            if bad: break
        if bad: break
    if bad: break
sys.exit(common.replay_exit(bad))
'''

# the classical shock-tube states used when the solver's model (an arbitrary
# iterate, not an input) does not by itself expose the difference
BATTERY = [(1.0, 0.125, 1.0, 0.1, 0.0, 0.0, 1.4),
           (1.0, 1.0, 0.4, 0.4, -2.0, 2.0, 1.4),
           (1.0, 1.0, 1000.0, 0.01, 0.0, 0.0, 1.4),
           (5.99924, 5.99242, 460.894, 46.095, 19.5975, -6.19633, 1.4),
           (1.0, 2.0, 3.0, 0.5, 0.3, -0.2, 5.0/3.0)]


def unit_van_leer_step(timeout_ms=60000):
    common.use_repo()
    import pysph.sph.gas_dynamics.riemann_solver as R
    out = dict(unit="van_leer inductive step (initial guess, one Newton "
               "pass from a symbolic iterate, final averaging): scaling and "
               "Galilean equivariance", obligations=0, discharged=0,
               undecided=[], outcomes={})
    solver_s = 0.0
    q = dict(unsat=0, sat=0, unknown=0)
    try:
        pre, body, post = slices(R.van_leer)
    except _Cut as e:
        out["undecided"].append("van_leer no longer has the shape this unit "
                                "cuts (%s): step claims not made" % e)
        out["stats"] = dict(paths=0, queries=q, solver_s=0.0,
                            incomplete="shape")
        return out
    names = ("rhol", "rhor", "pl", "pr", "ul", "ur", "gamma", "tol", "P")
    S = {n: z3.Real(n) for n in names}
    k, c = z3.Real("k"), z3.Real("c")
    dom = [S[n] > 0 for n in ("rhol", "rhor", "pl", "pr", "tol", "P")]
    dom += [S["gamma"] > 1, S["gamma"] <= 3, k > 0]
    ncex = [0]

    def transformed(kind, e):
        d = {n: V(S[n], e) for n in names}
        if kind == "scaling":
            for n in ("rhol", "rhor", "pl", "pr", "P"):
                d[n] = V(k * S[n], e)
        else:
            d["ul"] = V(S["ul"] + c, e)
            d["ur"] = V(S["ur"] + c, e)
        return d

    def claim(kind, phase, what, hyps, term, model_states):
        nonlocal solver_s
        out["obligations"] += 1
        r, model, dt = _prove(hyps, term, timeout_ms)
        solver_s += dt
        q[r if r in q else "unknown"] += 1
        key = "%s/%s/%s:%s" % (kind, phase, what, r)
        out["outcomes"][key] = round(dt, 2)
        if r == "unsat":
            out["discharged"] += 1
        elif r == "sat":
            ncex[0] += 1
            st = []
            try:
                from vf.symx import model_value
                st.append(tuple(float(model_value(model, S[n])) for n in
                                ("rhol", "rhor", "pl", "pr", "ul", "ur",
                                 "gamma")))
            except Exception:
                pass
            p = common.write_replay(
                PID, "van_leer_step_%s_%s_%d" % (kind, phase, ncex[0]),
                REPLAY % dict(kind=kind, states=st + BATTERY))
            common.triage(PID, out, "van_leer %s, %s: %s" % (kind, phase,
                                                              what), p,
                          dict(unit="van_leer", kind=kind + "_step"))
        else:
            out["undecided"].append("van_leer %s, %s: %s" % (kind, phase,
                                                              what))

    for kind in ("scaling", "galilean"):
        fac = (z3.RealVal(1), k)
        pf = k if kind == "scaling" else z3.RealVal(1)
        ushift = c if kind == "galilean" else z3.RealVal(0)
        # ---- phase init: statements before the loop
        e1 = Env("a")
        n1 = e1.run(pre, {n: V(S[n], e1) for n in names if n != "P"})
        e2 = Env("b", e1, fac)
        d2 = transformed(kind, e2)
        d2.pop("P")
        n2 = e2.run(pre, d2)
        hyps = dom + e1.hyp() + e2.hyp()
        solver_s += e2.solver_s
        if _reach(hyps, timeout_ms) != "sat":
            out["undecided"].append("%s init: hypotheses not shown "
                                    "satisfiable (vacuity guard)" % kind)
        claim(kind, "init", "initial guess equivariant", hyps,
              n2["pstar"].t == pf * n1["pstar"].t, None)
        # ---- phase step: one pass of the loop body from iterate P
        carry = [x for x in ("cl", "cr", "Vl", "Vr", "gamma1", "gamma2",
                             "smallp") if x in n1]
        e1b, e2b = Env("a"), Env("b")
        e1b.facts, e1b.divisors, e1b.sqrt_log = (list(e1.facts),
                                                 list(e1.divisors),
                                                 list(e1.sqrt_log))
        e2b.partner, e2b.factors = e1b, fac
        e2b.facts, e2b.divisors, e2b.sqrt_log = (list(e2.facts),
                                                 list(e2.divisors),
                                                 list(e2.sqrt_log))
        ns1 = {n: V(S[n], e1b) for n in names if n != "P"}
        ns1.update({x: V(n1[x].t, e1b) for x in carry})
        ns1["pstar"] = V(S["P"], e1b)
        e1b.snap = []
        m1 = e1b.run(body, ns1)
        snaps = e1b.snap
        e1b.snap = None
        d2 = transformed(kind, e2b)
        ns2 = {n: d2[n] for n in names if n != "P"}
        ns2.update({x: V(n2[x].t, e2b) for x in carry})
        ns2["pstar"] = d2["P"]
        m2 = e2b.run(body, ns2, twin=snaps, dom=dom,
                     factors=(z3.RealVal(1), k, 1 / k))
        hyps = dom + e1b.hyp() + e2b.hyp()
        solver_s += e2b.solver_s
        if _reach(hyps, timeout_ms) != "sat":
            out["undecided"].append("%s step: hypotheses not shown "
                                    "satisfiable (vacuity guard)" % kind)
        claim(kind, "step", "next iterate equivariant", hyps,
              m2["pstar"].t == pf * m1["pstar"].t, None)
        claim(kind, "step", "same convergence verdict", hyps,
              m2["converged"] == m1["converged"], None)
        # ---- phase final: statements after the loop, from the loop's state
        live = [x for x in ("wl", "wr", "zl", "zr", "pstar") if x in m1]
        m1f = e1b.run(post, {**ns1, **{x: m1[x] for x in live}})
        m2f = e2b.run(post, {**ns2, **{x: m2[x] for x in live}})
        hyps = dom + e1b.hyp() + e2b.hyp() + [
            m2["pstar"].t == pf * m1["pstar"].t]
        claim(kind, "final", "returned u* equivariant", hyps,
              m2f["ustar"].t == m1f["ustar"].t + ushift, None)
        out["outcomes"]["%s sqrt lemmas" % kind] = e2.lemmas + e2b.lemmas
    out["stats"] = dict(paths=6, queries=q, solver_s=round(solver_s, 2))
    out["sample"] = dict(unit=out["unit"], outcomes=out["outcomes"],
                         symbolic=["rhol,rhor,pl,pr,tol,P,k>0", "ul,ur,c",
                                   "1<gamma<=3"])
    return out
