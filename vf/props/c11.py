"""C11 - saved output loads back to the same particles and solver data.

The pysph side of the round trip is executed symbolically: the real
`pysph.solver.output.dump / load` (Output.dump, NumpyOutput, HDFOutput) and
`pysph.base.utils.get_particles_info` run on the ParticleArray lowered from
particle_array.pyx (vf/pa06.py) with symbolic property values and symbolic
tags; the file formats themselves are environment and are replaced by their
contract: what `numpy.savez` stored is what `numpy.load` returns (a snapshot
taken at save time), an h5py file is a tree of groups / datasets / attributes
that iterates in name order.  After load every array is compared with the
record-list specification of what was dumped.  Counter-examples are replayed
through the real numpy / h5py files with the compiled ParticleArray."""
import os
import sys
import time
import types
import itertools

import z3

from vf import common, symx, pa06, c06_ops as O
from vf.props import c06
from vf.symx import Stats, explore, is_sym

PID = "C11"


# ---------------------------------------------------------------------------
# environment: numpy's npz files and h5py, by contract

def _snap(v):
    """what serialisation keeps: values, not views"""
    if isinstance(v, pa06.NpView):
        return pa06.NpList(list(v.arr.data), v.arr.ctype)
    if isinstance(v, pa06.NpList):
        return pa06.NpList(list(v), v.dtype)
    if isinstance(v, pa06.BaseArray):
        return pa06.NpList(list(v.data), v.ctype)
    if isinstance(v, dict):
        return type(v)((k, _snap(x)) for k, x in v.items())
    if isinstance(v, list):
        return [_snap(x) for x in v]
    if isinstance(v, tuple):
        return tuple(_snap(x) for x in v)
    return v


class _ObjArr(object):
    """0-d object array holding a pickled python object"""

    def __init__(self, obj):
        self.obj = obj
        self.shape = ()

    def __getitem__(self, i):
        return self.obj


class _Npz(object):
    def __init__(self, entries):
        self.entries = entries
        self.files = list(entries)

    def __getitem__(self, k):
        v = self.entries[k]
        if isinstance(v, (dict, list)):
            return _ObjArr(_snap(v))
        return v


class FS(dict):
    pass


def make_numpy(fs):
    class NP(pa06.NP):
        @staticmethod
        def savez(filename, **kw):
            if not filename.endswith(".npz"):
                filename = filename + ".npz"
            fs[filename] = ("npz", _snap(kw))
        savez_compressed = savez

        @staticmethod
        def load(fname, encoding=None, allow_pickle=False):
            kind, entries = fs[fname]
            assert kind == "npz"
            return _Npz(entries)

        @staticmethod
        def array(x, dtype=None):
            if isinstance(x, _H5Dataset):
                return pa06.NpList(list(x.data), x.data.dtype)
            return pa06.NP.asarray(x, dtype)
    return NP


class _Attrs(dict):
    pass


class _H5Dataset(object):
    def __init__(self, data):
        self.data = data
        self.attrs = _Attrs()

    def __len__(self):
        return len(self.data)

    def __iter__(self):
        return iter(self.data)


class _H5Group(object):
    def __init__(self):
        self.children = {}
        self.attrs = _Attrs()

    def create_group(self, name):
        if name in self.children:
            raise ValueError("Unable to create group (name already exists)")
        g = _H5Group()
        self.children[name] = g
        return g

    def create_dataset(self, name, shape=None, data=None, **kw):
        if name in self.children:
            raise ValueError("Unable to create dataset (name already "
                             "exists)")
        if data is None:
            n = shape[0] if isinstance(shape, tuple) else int(shape or 0)
            data = pa06.NpList([0.0] * n, "float")
        d = _H5Dataset(_snap(data) if not isinstance(data, (list, tuple))
                       or isinstance(data, pa06.NpList)
                       else pa06.NpList(list(data)))
        self.children[name] = d
        return d

    def __getitem__(self, name):
        return self.children[name]

    def __contains__(self, name):
        return name in self.children

    def items(self):
        # h5py iterates links in name order
        return [(k, self.children[k]) for k in sorted(self.children)]

    def keys(self):
        return sorted(self.children)


def make_h5py(fs):
    class File(_H5Group):
        def __init__(self, filename, mode="r"):
            _H5Group.__init__(self)
            if mode == "w":
                fs[filename] = ("hdf5", self)
            else:
                kind, root = fs[filename]
                assert kind == "hdf5"
                self.children = root.children
                self.attrs = root.attrs

        def __enter__(self):
            return self

        def __exit__(self, *a):
            return False
    return types.SimpleNamespace(File=File)


def make_os(fs):
    return types.SimpleNamespace(path=types.SimpleNamespace(
        splitext=os.path.splitext, isfile=lambda f: f in fs,
        basename=os.path.basename, join=os.path.join))


# ---------------------------------------------------------------------------

def expected(spec, detailed, only_real, eq):
    """(records, stored property names) of the loaded array"""
    if detailed or not spec.out:
        stored = list(spec.props)
    else:
        stored = [p for p in spec.out if p in spec.props]
    recs = []
    for r in spec.recs:
        if only_real and not O._is(r["tag"][0], pa06.Local):
            continue
        recs.append(r)
    return recs, stored


def check_loaded(pa, spec, detailed, only_real, eq, fmt):
    """problems of a loaded array against what was dumped"""
    bad, unk = [], []
    recs, stored = expected(spec, detailed, only_real, eq)
    s = c06.snapshot(pa)
    if s["name"] != spec.name:
        bad.append("name %r, dumped %r" % (s["name"], spec.name))
    if set(s["props"]) != set(spec.props):
        return ["properties %s, dumped %s" % (sorted(s["props"]),
                                             sorted(spec.props))], unk
    n = len(recs)
    if s["n"] != n:
        bad.append("%d particles loaded, %d dumped" % (s["n"], n))
    for p, (ct, vals) in s["props"].items():
        ect, est, edf = spec.props[p]
        if ct != ect:
            bad.append("property %s has C type %s, dumped %s" % (p, ct, ect))
        st = s["stride"].get(p, 1)
        if st != est:
            bad.append("stride of %s is %r, dumped %r" % (p, st, est))
        if len(vals) != n * est:
            bad.append("property %s holds %d values for %d particles of "
                       "stride %d" % (p, len(vals), n, est))
        r = eq(s["defaults"].get(p), edf)
        if r is False:
            bad.append("default of %s is %r, dumped %r" % (
                p, s["defaults"].get(p), edf))
        elif r is None:
            unk.append("default of %s" % p)
    if set(s["constants"]) != set(spec.constants):
        bad.append("constants %s, dumped %s" % (sorted(s["constants"]),
                                               sorted(spec.constants)))
    else:
        for k, v in s["constants"].items():
            r = c06.tup_eq(eq, tuple(v), tuple(spec.constants[k]))
            if r is False:
                bad.append("constant %s is %r, dumped %r" % (
                    k, v, spec.constants[k]))
            elif r is None:
                unk.append("constant %s" % k)
    out = s["out"]
    if out is None or sorted(out) != sorted(spec.out):
        bad.append("output_property_arrays %r, dumped %r" % (out, spec.out))
    if bad:
        return bad, unk
    for p in stored:
        st = spec.props[p][1]
        for i, rec in enumerate(recs):
            got = tuple(s["props"][p][1][i * st:(i + 1) * st])
            r = c06.tup_eq(eq, got, rec[p])
            if r is False:
                bad.append("particle %d: %s = %s, dumped %s" % (
                    i, p, [str(getattr(x, "t", x)) for x in got],
                    [str(getattr(x, "t", x)) for x in rec[p]]))
            elif r is None:
                unk.append("particle %d: %s" % (i, p))
    if bad:
        return bad, unk
    # Local particles first and counted
    if "tag" in stored:
        nloc = 0
        for rec in recs:
            if O._is(rec["tag"][0], pa06.Local):
                nloc += 1
        if not is_sym(s["nrp"]) and s["nrp"] != nloc:
            bad.append("num_real_particles=%r after load but %d Local "
                       "particles were dumped" % (s["nrp"], nloc))
    return bad, unk


class Problem(Exception):
    def __init__(self, msgs):
        Exception.__init__(self, "; ".join(msgs))
        self.msgs = msgs


def round_trip(cfg, env, fac, eq, out_mod, extra_globals):
    """dump + load of cfg's arrays through out_mod.dump/load"""
    inits = cfg_inits(cfg)
    pas, specs = [], []
    for ini, outs in inits:
        pa = ini.build(env, fac)
        sp = ini.spec(env)
        if outs is not None:
            pa.set_output_arrays(list(outs))
            sp.out = list(outs)
        # the order in which the constructor's alignment leaves the particles
        # is the implementation's: synchronise the specification with it
        b, u = c06.compare(pa, sp, eq, False, True, "constructed array")
        if b:
            raise Problem(["constructing array %s: %s" % (sp.name, x)
                           for x in b])
        pas.append(pa)
        specs.append(sp)
    sd = {} if cfg.get("empty_sd") else \
        dict(t=env.val("r:sd_t"), dt=env.val("r:sd_dt"), count=7)
    fname = cfg["fname"]
    try:
        out_mod.dump(fname, pas, dict(sd),
                     detailed_output=cfg["detailed"],
                     only_real=cfg["only_real"], compress=cfg["compress"])
        real_name = os.path.splitext(fname)[0] + "." + cfg["fmt"] \
            if fname.endswith(("npz", "hdf5")) else fname + "." + cfg["fmt"]
        data = out_mod.load(extra_globals.get("path", lambda f: f)(
            real_name))
    except symx.PathAbort:
        raise
    except Exception as e:
        raise Problem(["dump/load raised %s: %s" % (type(e).__name__,
                                                    str(e)[:300])])
    bad, unk = [], []
    if set(data) != set(["arrays", "solver_data"]):
        raise Problem(["load returned keys %s" % sorted(data)])
    lsd = data["solver_data"]
    if set(lsd) != set(sd):
        bad.append("solver data keys %s, dumped %s" % (sorted(lsd),
                                                       sorted(sd)))
    else:
        for k in sd:
            r = eq(lsd[k], sd[k])
            if r is False:
                bad.append("solver data %s = %r, dumped %r" % (k, lsd[k],
                                                               sd[k]))
            elif r is None:
                unk.append("solver data %s" % k)
    if set(data["arrays"]) != set(sp_.name for sp_ in specs):
        bad.append("arrays %s, dumped %s" % (sorted(data["arrays"]),
                                            [sp.name for sp in specs]))
    if bad:
        raise Problem(bad)
    for sp in specs:
        b, u = check_loaded(data["arrays"][sp.name], sp, cfg["detailed"],
                            cfg["only_real"], eq, cfg["fmt"])
        unk += u
        if b:
            raise Problem(["array %s: %s" % (sp.name, x) for x in b])
    # the dumped arrays themselves are untouched
    for pa, sp in zip(pas, specs):
        b, u = c06.compare(pa, sp, eq, True, True, "dumped array")
        if b:
            raise Problem(["dumping changed array %s: %s" % (sp.name, x)
                           for x in b])
    return unk


# ---------------------------------------------------------------------------
# configurations

def DBL(d=None):
    return ("double", 1, d)


ARRAYS = {
    "plain": lambda n: (O.Init("fluid", n, dict(x=DBL(), rho=DBL("r:def_rho")),
                               label="plain"), None),
    "typed": lambda n: (O.Init("fluid", n, dict(
        x=DBL(), A=("double", 3, "r:def_A"), m=("int", 1, 7),
        u=("unsigned int", 1, 5), w=("long", 1, "i:def_w"),
        f=("float", 1, None)),
        constants=dict(c=["r:c0", "r:c1", "r:c2"], k=["r:k0"]),
        label="typed"), None),
    "out": lambda n: (O.Init("fluid", n, dict(
        x=DBL(), A=("double", 2, "r:def_A"), m=("int", 1, 7),
        q=DBL("r:def_q")), constants=dict(c=["r:c0"]), label="out"),
        ["x", "A", "tag"]),
    "out_notag": lambda n: (O.Init("fluid", n, dict(
        x=DBL(), A=("double", 2, "r:def_A"), q=DBL("r:def_q")),
        label="out_notag"), ["A", "x"]),
    "solid": lambda n: (O.Init("solid", n, dict(
        x=DBL(), B=("double", 2, None)), constants=dict(cm=["r:cm0",
                                                           "r:cm1"]),
        label="solid"), ["x"]),
}


def cfg_inits(cfg):
    return [ARRAYS[k](n) for k, n in cfg["arrays"]]


def configs(tier):
    layouts = [[("plain", 2)], [("typed", 2)], [("out", 2)],
               [("out_notag", 2)], [("plain", 0)], [("out", 0)],
               [("typed", 1), ("solid", 2)]]
    layouts += [[("typed", 3)], [("out", 3)], [("out", 2), ("solid", 0)],
                [("plain", 3), ("solid", 1)]]
    if tier != "quick":
        # (two arrays of one layout must have different names)
        layouts += [[("out_notag", 2), ("solid", 2)], [("out_notag", 3)],
                    [("solid", 3), ("plain", 2)]]
    out = []
    for lay in layouts:
        for fmt in ("npz", "hdf5"):
            for detailed in (False, True):
                for only_real in (True, False):
                    for compress in (False, True):
                        out.append(dict(
                            arrays=lay, fmt=fmt, detailed=detailed,
                            only_real=only_real, compress=compress,
                            fname="out_10." + fmt))
    # boundary cases: no solver data, no particle arrays
    for fmt in ("npz", "hdf5"):
        out.append(dict(arrays=[("plain", 2)], fmt=fmt, detailed=False,
                        only_real=True, compress=False, empty_sd=True,
                        fname="out_10." + fmt))
        out.append(dict(arrays=[], fmt=fmt, detailed=False, only_real=True,
                        compress=False, fname="out_10." + fmt))
    return out


REPLAY = common.REPLAY_HEADER + '''
import tempfile, shutil
from vf import c06_ops as O, pa06
from vf.props import c06, c11
VALUES = %(values)r
cfg = %(cfg)r
fac = c06.compiled_factory()
import pysph.solver.output as OUT
count = [0]
def make(tok):
    if tok in VALUES:
        return VALUES[tok]
    count[0] += 1
    return (1000.5 + count[0]) if tok[0] == "r" else (0 if tok[0] == "t" else 100 + count[0])
env = O.Env(make)
d = tempfile.mkdtemp(prefix="pysph-c11-", dir="/var/tmp")
bad = None
try:
    cfg = dict(cfg, fname=os.path.join(d, cfg["fname"]))
    if cfg["fmt"] == "npz":
        OUT.has_h5py = lambda: False
    try:
        r = c11.round_trip(cfg, env, fac, c06.Eq(None), OUT, {})
        print("round_trip ->", r)
    except c11.Problem as p:
        bad = "; ".join(p.msgs)
finally:
    shutil.rmtree(d, ignore_errors=True)
sys.exit(common.replay_exit(bad))
'''


def classify(cfg, p):
    m = p.msgs[0]
    for key in ("raised", "default of", "output_property_arrays",
                "num_real_particles", "C type", "stride", "constant",
                "properties", "particles loaded", "solver data", "holds",
                "particle", "name"):
        if key in m:
            return "%s:%s" % (cfg["fmt"], key)
    return "%s:other" % cfg["fmt"]


def unit_roundtrip(cfgs, deadline_s=600):
    common.use_repo_with_build()
    import pysph.solver.output as OUT
    stats = Stats()
    out = dict(unit="dump/load %s %s%s (%d option combinations)" % (
        cfgs[0]["fmt"], cfgs[0]["arrays"],
        " no solver data" if cfgs[0].get("empty_sd") else "", len(cfgs)),
        obligations=0, discharged=0, undecided=[])
    fac = c06.lowered_factory()
    findings = common.load_findings(PID)
    reported = set()
    t0 = time.time()
    for cfg in cfgs:
        if time.time() - t0 > deadline_s:
            stats.incomplete = "deadline %ss reached" % deadline_s
            break
        fs = FS()
        glob = dict(numpy=make_numpy(fs), ParticleArray=fac.pa_cls,
                    os=make_os(fs),
                    has_h5py=(lambda: True) if cfg["fmt"] == "hdf5"
                    else (lambda: False))
        fake_h5 = make_h5py(fs)

        def run(ctx):
            fs.clear()
            env = O.Env(c06.sym_make(ctx))
            eq = c06.Eq(ctx)
            try:
                r = round_trip(cfg, env, fac, eq, OUT, {})
            except Problem as p:
                return ("bad", p, env)
            return ("ok", r, env)
        old_h5 = sys.modules.get("h5py")
        sys.modules["h5py"] = fake_h5
        try:
            with symx.patched_globals(OUT, glob):
                for path in explore(run, max_paths=stats.paths + 300,
                                    stats=stats):
                    if path.exc is not None:
                        out.setdefault("harness_errors", []).append(
                            "%r: %r" % (cfg, path.exc))
                        break
                    kind, r, env = path.value
                    out["obligations"] += 1
                    if kind == "ok":
                        if r:
                            out["undecided"].append("%r: %s" % (cfg, r[0]))
                        else:
                            out["discharged"] += 1
                        continue
                    cls = classify(cfg, r)
                    if cls in reported:
                        continue
                    reported.add(cls)
                    vals = c06._model_values(path.ctx, env)
                    if vals is None:
                        out["undecided"].append("%r: no model" % (cfg,))
                        continue
                    name = "rt_%s_%s_%s" % (cfg["fmt"], "_".join(
                        "%s%d" % a for a in cfg["arrays"]),
                        cls.split(":")[1].replace(" ", "_"))
                    rp = common.write_replay(PID, name, REPLAY % dict(
                        values=vals, cfg=cfg))
                    common.triage(
                        PID, out, "%s detailed=%s only_real=%s %s: %s" % (
                            cfg["fmt"], cfg["detailed"], cfg["only_real"],
                            cfg["arrays"], "; ".join(r.msgs)[:400]), rp,
                        dict(unit="roundtrip", cls=cls,
                             detailed=cfg["detailed"],
                             only_real=cfg["only_real"]), findings)
        finally:
            if old_h5 is None:
                sys.modules.pop("h5py", None)
            else:
                sys.modules["h5py"] = old_h5
    out["stats"] = stats.as_dict()
    return out


def unit_env_conformance():
    """the file-format contracts used above, checked on the real numpy and
    h5py: savez/load returns what was stored (snapshot semantics) and h5py
    groups iterate in name order and keep dataset dtypes / attributes"""
    common.use_repo()
    import tempfile
    import shutil
    import numpy
    out = dict(unit="npz / h5py contract (concrete)", obligations=0,
               discharged=0, undecided=[])
    d = tempfile.mkdtemp(prefix="pysph-c11-env-", dir="/var/tmp")
    try:
        out["obligations"] += 1
        a = numpy.arange(4.0)
        info = {"p": {"arrays": {"x": a[:3]}, "k": [1, "s", None]}}
        numpy.savez(os.path.join(d, "f.npz"), version=2, particles=info)
        a[:] = -1.0
        z = numpy.load(os.path.join(d, "f.npz"), allow_pickle=True)
        p = z["particles"]
        p.shape = (1,)
        ok = sorted(z.files) == ["particles", "version"] and \
            z["version"] == 2 and \
            list(p[0]["p"]["arrays"]["x"]) == [0.0, 1.0, 2.0] and \
            p[0]["p"]["k"] == [1, "s", None]
        if ok:
            out["discharged"] += 1
        else:
            out.setdefault("harness_errors", []).append(
                "numpy.savez/load contract differs")
        out["obligations"] += 1
        try:
            import h5py
        except ImportError:
            out["undecided"].append("h5py not importable")
            h5py = None
        import warnings
        warnings.simplefilter("ignore")
        if h5py is not None:
            with h5py.File(os.path.join(d, "f.hdf5"), "w") as f:
                g = f.create_group("g")
                for nm in ("zeta", "alpha", "m"):
                    ds = g.create_dataset(nm, data=numpy.array(
                        [1, 2], dtype=numpy.int32))
                    ds.attrs["stored"] = True
                    ds.attrs["name"] = nm
                    ds.attrs["default"] = 2.5
                e = g.create_dataset("empty", (0,))
                e.attrs["data"] = "None"
                g.attrs["t"] = 0.25
            with h5py.File(os.path.join(d, "f.hdf5"), "r") as f:
                g = f["g"]
                names = [k for k, _ in g.items()]
                ok = names == sorted(names) and \
                    numpy.array(g["m"]).dtype == numpy.int32 and \
                    bool(g["m"].attrs["stored"]) is True and \
                    g["m"].attrs["default"] == 2.5 and \
                    str(g["m"].attrs["name"]) == "m" and \
                    g["m"].attrs.get("stride", 1) == 1 and \
                    len(numpy.array(g["empty"])) == 0 and \
                    g.attrs["t"] == 0.25
            if ok:
                out["discharged"] += 1
            else:
                out.setdefault("harness_errors", []).append(
                    "h5py contract differs")
    finally:
        shutil.rmtree(d, ignore_errors=True)
    out["stats"] = Stats().as_dict()
    return out


def main():
    t = common.tier()
    common.use_repo_with_build()
    rep = common.Report(
        PID, "other",
        "the real pysph.solver.output.dump/load and get_particles_info run "
        "on the ParticleArray lowered from particle_array.pyx with symbolic "
        "values and tags; numpy's npz files and h5py are replaced by their "
        "contract (store / return, name-ordered groups); after load every "
        "array is compared with the record-list specification of what was "
        "dumped, each equality a solver claim on the path; counter-examples "
        "are replayed through real files with the compiled class")
    import pysph.solver.output as OUT
    import pysph.base.utils as BU
    rep.functions = [common.func_ref(f) for f in (
        OUT.dump, OUT.load, OUT.Output.dump, OUT.NumpyOutput._dump,
        OUT.NumpyOutput._load, OUT.HDFOutput._dump, OUT.HDFOutput._load,
        OUT.HDFOutput._get_particles, OUT.HDFOutput._set_properties,
        OUT.HDFOutput._set_constants, BU.get_particles_info)] + [
        "pysph/base/particle_array.pyx sha=%s (lowered)" % common.sha_of(
            os.path.join(common.REPO, pa06.PYX))]
    cfgs = configs(t)
    groups = {}
    for c in cfgs:
        groups.setdefault((c["fmt"], repr(c["arrays"]),
                           bool(c.get("empty_sd"))), []).append(c)
    units = [("vf.props.c11", "unit_env_conformance", {})]
    for k, v in groups.items():
        units.append(("vf.props.c11", "unit_roundtrip",
                      dict(cfgs=v, deadline_s=400 if t == "quick" else 1400)))
    rep.bounds = dict(
        arrays=sorted(set(repr(c["arrays"]) for c in cfgs)),
        formats=["npz", "hdf5"], options="detailed_output x only_real x "
        "compress",
        particles="<= 3 per array, 1-2 arrays", values="uninterpreted reals "
        "/ ints, tags symbolic in {0,1,2}")
    rep.assumptions = [
        "numpy.savez/load and h5py are environment, modelled by their "
        "contract (vf/props/c11.py; unit 'npz / h5py contract' checks the "
        "contract on the real libraries); compression does not alter data",
        "Cython->Python lowering of particle_array.pyx and the cyarray / "
        "numpy models of vf/pa06.py (C06)",
        "arrays are dumped as the solver holds them: aligned (Local "
        "particles first)"]
    rep.outside = ["version-1 files (get_particle_array's numpy plumbing)",
                   "dtype conversions inside numpy / h5py", "MPI gather",
                   "values of properties that were not stored (only their "
                   "number is checked)", "lb_props"]
    common.run_units(rep, units)
    return rep.finish()


if __name__ == "__main__":
    if len(sys.argv) > 2 and sys.argv[1] == "--replay":
        sys.exit(common.run_replay(sys.argv[2])[0])
    sys.exit(main())
