"""C18 -- the solver controller never loses a command or a wake-up.

Bounded model checking: the CommandManager methods of
pysph/solver/controller.py are translated from their AST into a transition
system at synchronisation-primitive granularity (vf/bmc.py); the schedule is
a symbolic array; z3 searches, up to K transitions, for: a global deadlock
with the solver unfinished, a KeyError state, a command executed more than
once or its result not delivered, and wait() returning while the solver is
not parked in wait_for_cmd.  Every counter-example schedule is replayed on
the real module with cooperative threading primitives (vf/coop.py)."""
import os
import sys
import time
import json

import z3

from vf import common, bmc

PID = "C18"


def _path():
    return os.path.join(common.REPO, "pysph", "solver", "controller.py")


SYSTEMS_QUICK = [
    [("solver", ["X", "X"]), ("ifaceA", ["P", "W", "C"])],
    [("solver", ["X", "X"]), ("ifaceA", ["Q", "R"])],
    [("solver", ["X", "X"]), ("ifaceA", ["P", "C"])],
    [("solver", ["X", "X"]), ("ifaceA", ["Q", "P", "W", "C", "R"])],
    [("solver", ["X", "X"]), ("ifaceA", ["P", "W", "C"]),
     ("ifaceB", ["Q", "R"])],
    [("solver", ["X", "X"]), ("ifaceA", ["P", "W", "C"]),
     ("ifaceB", ["P", "W", "C"])],
]
SYSTEMS_THOROUGH = SYSTEMS_QUICK + [
    [("solver", ["X", "X", "X"]), ("ifaceA", ["P", "W", "Q", "C", "R"])],
    [("solver", ["X", "X"]), ("ifaceA", ["Q", "R"]),
     ("ifaceB", ["Q", "R"])],
    [("solver", ["X", "X", "X"]), ("ifaceA", ["Q", "R", "Q", "R"])],
]

REPLAY = common.REPLAY_HEADER + '''
import json
from vf import coop
programs, order, expect = %(programs)r, %(order)r, %(expect)r
r = coop.run(%(path)r, programs, order)
print("trace:", r["trace"])
print("outcome:", dict((k, v) for k, v in r.items() if k not in ("trace",)))
bad = None
if expect == "deadlock":
    if r["deadlock"] and "solver" in r["blocked"]:
        bad = "deadlock: threads %%s blocked forever (solver has control points left)" %% r["blocked"]
elif expect == "error":
    if r["errors"]:
        bad = "exception in a thread: %%s" %% r["errors"]
elif expect == "exec":
    if any(v > 1 for v in r["executed"].values()):
        bad = "a queued command ran more than once: %%s" %% r["executed"]
elif expect == "early_wait":
    # wait() returned (mark W end) although, in its current control point,
    # the solver had not yet announced that it is pausing (notify_all)
    for m in r["marks"]:
        if m[1] == "W" and m[3] == "end":
            pos = m[4]
            begins = [x[4] for x in r["marks"] if x[0] == "solver" and x[3] == "begin" and x[4] <= pos]
            b = max(begins) if begins else 0
            announced = any(n == "solver" and w == "notify_all" for n, w in r["trace"][b:pos])
            if not announced:
                bad = "%%s: wait() returned at sync op %%d before the solver paused at a control point" %% (m[0], pos)
elif expect == "wake_all":
    for who, op, left in r["notifies"]:
        if who == "solver" and left:
            bad = "the solver announced its control point with %%s() while %%s sat in wait(): not woken" %% (op, left)
elif expect == "progress":
    if r["left_paused"]:
        bad = "the solver left wait_for_cmd while pause requests %%s were still pending" %% r["left_paused"]
sys.exit(common.replay_exit(bad))
'''


def _parked_pcs(S):
    """solver pcs inside a `while self.pause:` loop of wait_for_cmd"""
    code = S.threads[0]["code"]
    pcs = set()
    for p, ins in enumerate(code):
        if ins[0] == "jf" and ins[1] == "pause_nonempty":
            pcs.update(range(p, ins[2]))
    return pcs


def unit_system(idx, K, thorough=False, timeout_ms=400000, only=None):
    common.use_repo()
    systems = SYSTEMS_THOROUGH if thorough else SYSTEMS_QUICK
    programs = systems[idx]
    out = dict(unit="system %d: %s K=%d %s" % (idx, programs, K, only or ""),
               obligations=0,
               discharged=0, undecided=[], states=0, transitions=0,
               replays=0, findings=[])
    findings = common.load_findings(PID)
    t0 = time.time()
    try:
        S = bmc.System(_path(), programs)
        cons, states, sched, picks = S.unroll(K)
    except bmc.NotEncodable as e:
        out.setdefault("harness_errors", []).append(
            "controller.py is not encodable: %s" % e)
        out["stats"] = dict(paths=0, queries=dict(unsat=0, sat=0, unknown=0),
                            solver_s=0.0)
        return out
    out["states"] = len(states)
    out["transitions"] = K * S.nt
    out["instructions"] = dict((t["name"], len(t["code"]))
                               for t in S.threads)
    names = [t["name"] for t in S.threads]
    parked = _parked_pcs(S)
    q = dict(unsat=0, sat=0, unknown=0)
    solver_s = 0.0

    def at(st, t, kinds):
        code = S.threads[t]["code"]
        pcs = [p for p, ins in enumerate(code) if ins[0] in kinds or
               (ins[0], ins[1] if len(ins) > 1 else None) in kinds]
        return z3.Or(*[st["pc%d" % t] == p for p in pcs]) if pcs else \
            z3.BoolVal(False)

    def known_deadlock(st):
        # the recorded lost wake-up: solver parked in qlock.wait while an
        # interface thread sits un-notified in plock.wait (other threads may
        # be blocked behind them)
        conj = [at(st, 0, [("wait2", "qlock")])]
        conj.append(z3.Or(*[z3.And(at(st, t, [("wait2", "plock")]),
                                   z3.Not(st["n_plock_%d" % t]))
                            for t in range(1, S.nt)]))
        return z3.And(*conj)

    props = {}
    dl, er, ex, ew = [], [], [], []
    for st in states:
        en = [S.enabled(st, t) for t in range(S.nt)]
        dead = z3.And(z3.Not(z3.Or(*en)), z3.Not(S.finished(st, 0)))
        dl.append((dead, known_deadlock(st)))
        er.append(st["err"])
        exs = [st["exec%d" % k] > 1 for k in range(S.ntask)]
        # result delivered implies executed exactly once
        for k in range(S.ntask):
            exs.append(z3.And(st["got%d" % k], st["exec%d" % k] != 1))
        ex.append(z3.Or(*exs))
        early = []
        for t in range(1, S.nt):
            prog = S.threads[t]["prog"]
            for i, op in enumerate(prog):
                if op != "W":
                    continue
                lo = [p for p, n in S.threads[t]["marks"]
                      if n == "W#%d:end" % i][0]
                nxt = [p for p, n in S.threads[t]["marks"]
                       if n.endswith(":begin") and p >= lo]
                hi = min(nxt) if nxt else lo
                inwin = z3.And(st["pc%d" % t] >= lo, st["pc%d" % t] <= hi,
                               st["pause%d" % t])
                notparked = z3.And(*[st["pc0"] != p for p in parked])
                early.append(z3.And(inwin, notparked,
                                    z3.Not(S.finished(st, 0))))
        ew.append(z3.Or(*early) if early else z3.BoolVal(False))
    props["deadlock"] = z3.Or(*[z3.And(d, z3.Not(kn)) for d, kn in dl])
    props["deadlock_known_class"] = z3.Or(*[z3.And(d, kn) for d, kn in dl])
    props["error"] = z3.Or(*er)
    props["exec"] = z3.Or(*ex)
    props["early_wait"] = z3.Or(*ew)
    # the solver leaves wait_for_cmd although a pause request it has seen
    # is still pending
    code0 = S.threads[0]["code"]
    exits = [ins[2] for ins in code0 if ins[0] == "jf" and
             ins[1] == "pause_nonempty"]
    pg = []
    for st in states:
        pend = z3.Or(*[z3.And(st["pause%d" % t], st["obs%d" % t])
                       for t in range(1, S.nt)])
        pg.append(z3.And(z3.Or(*[st["pc0"] == p for p in exits]), pend))
    props["progress"] = z3.Or(*pg)
    # a thread already blocked in wait() when the solver announces a control
    # point is woken by that announcement
    props["wake_all"] = z3.Or(*[st["missed%d" % t] for st in states
                                for t in range(1, S.nt)])

    ncex = 0
    for pname, bad in props.items():
        if only and pname not in only:
            continue
        s = z3.Solver()
        s.set("timeout", timeout_ms)
        s.add(*cons)
        s.add(bad)
        out["obligations"] += 1
        ts = time.time()
        r = str(s.check())
        solver_s += time.time() - ts
        q[r] += 1
        what = "%s unreachable within %d transitions" % (pname, K)
        if r == "unsat":
            out["discharged"] += 1
            continue
        if r == "unknown":
            out["undecided"].append(what)
            continue
        m = s.model()
        order = []
        for v in sched:
            i = m.eval(v, True).as_signed_long()
            if i < 0:
                break
            order.append(names[i])
        ncex += 1
        expect = {"deadlock": "deadlock", "deadlock_known_class": "deadlock",
                  "error": "error", "exec": "exec",
                  "early_wait": "early_wait", "progress": "progress",
                  "wake_all": "wake_all"}[pname]
        p = common.write_replay(PID, "sys%d_%s_%d" % (idx, pname, ncex),
                                REPLAY % dict(programs=programs, order=order,
                                              expect=expect, path=_path()))
        out["replays"] += 1
        res = common.triage(PID, out, "%s: %s reachable (schedule %s)" % (
            out["unit"], pname, order), p,
            dict(unit="controller", kind=pname), findings)
        if res == "known":
            out["discharged"] += 1
            out["findings"].append(pname)
    out["stats"] = dict(paths=len(states), infeasible_paths=0,
                        bound_exceeded=0, feasibility_checks=0,
                        feasibility_unknown=0, queries=q,
                        solver_s=round(solver_s, 2), incomplete=None)
    out["sample"] = dict(programs=programs, K=K,
                         instructions=out["instructions"])
    return out


def main():
    t = common.tier()
    common.use_repo()
    thorough = t == "thorough"
    systems = SYSTEMS_THOROUGH if thorough else SYSTEMS_QUICK
    rep = common.Report(
        PID, "model_checking",
        "bounded model checking (z3, symbolic schedule) of a transition "
        "system translated from the AST of CommandManager's methods; "
        "counter-example schedules are replayed on the real module with "
        "cooperative threading primitives")
    rep.functions = ["%s sha=%s" % (os.path.relpath(_path(), common.REPO),
                                    common.sha_of(_path()))]
    K = 48 if not thorough else 70
    units = []
    for i, progs in enumerate(systems):
        if len(progs) <= 2:
            units.append(("vf.props.c18", "unit_system",
                          dict(idx=i, K=K, thorough=thorough)))
        else:
            # three threads: one process per property (the unsat proofs take
            # minutes each)
            for group in (("deadlock", "deadlock_known_class"), ("error",),
                          ("exec",), ("early_wait",), ("progress",),
                          ("wake_all",)):
                units.append(("vf.props.c18", "unit_system",
                              dict(idx=i, K=K if thorough else 36,
                                   thorough=thorough, only=group)))
    common.run_units(rep, units)
    rep.bounds = dict(systems=systems, transitions=K,
                      granularity="one transition = one synchronisation "
                      "operation (acquire/release/wait/wake/notify) followed "
                      "by the plain statements up to the next one",
                      solver_control_points="2 (3 in some thorough systems)")
    rep.assumptions = [
        "serial run (DummyComm): Get_size()==1, Get_rank()==0, bcast is the "
        "identity; no registered periodic functions",
        "leaf statements over queue/queue_dict/queue_lock_map/results/pause "
        "are recognised by their source text (vf/bmc.py LEAVES); any other "
        "statement makes the unit not encodable",
        "Condition.notify wakes an arbitrary waiter; no spurious wake-ups",
        "a deadlock counts only while the solver still has control points "
        "left (a finite solver run ending while an interface waits is not "
        "reported)"]
    rep.outside = ["blocking-mode immediate dispatch racing with the solver "
                   "thread on solver attributes", "MPI", "more than K "
                   "transitions / more interface operations than listed"]
    rep.extra = dict(
        states=sum(u.get("states", 0) for u in rep.units) or 1,
        transitions=sum(u.get("transitions", 0) for u in rep.units) or 1,
        traces_validated_against_impl=sum(u.get("replays", 0)
                                          for u in rep.units))
    return rep.finish()


if __name__ == "__main__":
    sys.exit(main())
