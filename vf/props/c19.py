"""C19 -- the adaptive time step is the documented minimum over all
particles.  The real Integrator.compute_time_step (+ helpers) and
Solver._compute_timestep run on model particle arrays holding exact-real
proxies; which optional properties an array has is enumerated, values are
symbolic; z3 compares with the documented formula on every path."""
import sys
import itertools
import types
import math

import numpy
import z3

from vf import common
from vf.symx import (explore, patched_globals, real, SReal, Stats, to_real,
                     model_value, rv, MATH_TABLE, is_sym, sym_sqrt, ctx)

PID = "C19"
CRIT = ("dt_cfl", "dt_force", "dt_visc")


class SymNP(object):
    """`np` as seen by integrator.py during symbolic runs"""
    inf = float("inf")

    @staticmethod
    def max(x):
        x = list(x)
        if not x:
            raise ValueError("zero-size array to reduction operation maximum")
        return MATH_TABLE["max"](x) if len(x) > 1 else x[0]

    @staticmethod
    def min(x):
        x = list(x)
        if not x:
            raise ValueError("zero-size array to reduction operation minimum")
        return MATH_TABLE["min"](x) if len(x) > 1 else x[0]

    @staticmethod
    def isinf(x):
        return (not is_sym(x)) and math.isinf(x)

    def __getattr__(self, n):
        return getattr(numpy, n)


class CArr(object):
    def __init__(self, minimum):
        self.minimum = minimum


class ModelPA(object):
    """What compute_time_step uses of a ParticleArray.  `vals[name]` lists
    the values of ALL particles, real ones first."""
    gpu = None

    def __init__(self, name, nreal, nghost, vals):
        self.name = name
        self.nreal, self.nghost = nreal, nghost
        self.vals = vals
        self.properties = dict((k, None) for k in vals)

    def get(self, name, only_real_particles=True):
        v = self.vals[name]
        v = v[:self.nreal] if only_real_particles else v
        a = numpy.empty(len(v), dtype=object)
        a[:] = v
        return a

    def __getattr__(self, name):
        if name in self.__dict__.get("vals", {}):
            return self.get(name)
        raise AttributeError(name)

    def get_number_of_particles(self, real=False):
        return self.nreal if real else self.nreal + self.nghost

    def get_carray(self, name):
        # cyarray semantics: minimum of all entries as of the last
        # update_min_max (done by every domain update); 0.0 when empty
        v = self.vals[name]
        if not v:
            return CArr(0.0)
        return CArr(MATH_TABLE["min"](v) if len(v) > 1 else v[0])


def z_min(ts):
    r = ts[0]
    for t in ts[1:]:
        r = z3.If(t < r, t, r)
    return r


def z_max(ts):
    r = ts[0]
    for t in ts[1:]:
        r = z3.If(t > r, t, r)
    return r


def oracle(arrays, cfl, c):
    """The documented formula (property statement) as z3 terms.
    Returns (kind, term): kind in {'value','none'} decided by z3 conditions
    -> returns list of (condition, expected) alternatives."""
    alts = []
    # explicit dt_adapt over real particles of all arrays
    da = [to_real(v) for pa in arrays if "dt_adapt" in pa.vals
          for v in pa.vals["dt_adapt"][:pa.nreal]]
    used = z3.BoolVal(False)
    if da:
        m = z_min(da)
        used = m > 0
        alts.append((used, m))
    hs = [to_real(v) for pa in arrays for v in pa.vals["h"]]
    crit = {}
    for k in CRIT:
        vs = [to_real(v) for pa in arrays if k in pa.vals
              for v in pa.vals[k][:pa.nreal]]
        crit[k] = z_max(vs) if vs else None
    return alts, used, hs, crit


REPLAY = common.REPLAY_HEADER + '''
common.use_repo_with_build()
import numpy as np, math
from pysph.base.utils import get_particle_array
from pysph.sph.integrator import Integrator
from pysph.base.particle_array import ParticleArray
spec = %(spec)r
cfl, fixed_h = %(cfl)r, %(fixed_h)r
class AE: pass
ae = AE(); ae.particle_arrays = []
for (name, nreal, nghost, vals) in spec:
    n = nreal + nghost
    pa = get_particle_array(name=name, x=np.zeros(n), h=np.array(vals["h"], dtype=float))
    for k, v in vals.items():
        if k != "h":
            pa.add_property(k); pa.get_carray(k).get_npy_array()[:] = v
    pa.tag[nreal:] = 2
    pa.align_particles()
    pa.update_min_max()
    ae.particle_arrays.append(pa)
integ = Integrator()
integ.set_acceleration_evals(ae)
integ.set_fixed_h(fixed_h)
got = integ.compute_time_step(0.1, cfl)
# documented value
da = [v for (_, nr, ng, vals) in spec if "dt_adapt" in vals for v in vals["dt_adapt"][:nr]]
exp = None
if da and min(da) > 0:
    exp = min(da)
else:
    hs = [v for (_, nr, ng, vals) in spec for v in vals["h"]]
    if hs:
        hmin = min(hs); cands = []
        for k in ("dt_cfl", "dt_force", "dt_visc"):
            vs = [v for (_, nr, ng, vals) in spec if k in vals for v in vals[k][:nr]]
            if vs and max(vs) > 0:
                m = max(vs)
                cands.append(hmin/m if k != "dt_force" else math.sqrt(hmin/math.sqrt(m)))
        if cands:
            exp = cfl*min(cands)
print("compute_time_step ->", got, " documented ->", exp)
bad = None
if (got is None) != (exp is None):
    bad = "got %%r, documented %%r" %% (got, exp)
elif got is not None and not (abs(got - exp) <= 1e-9*abs(exp)):
    bad = "got %%r, documented %%r" %% (got, exp)
sys.exit(common.replay_exit(bad))
'''


def unit_config(layout, presence, fixed_h=False, timeout_ms=30000):
    """layout: tuple of (nreal, nghost) per array; presence: tuple of
    frozenset of optional property names per array."""
    common.use_repo()
    from pysph.sph import integrator as I
    stats = Stats()
    out = dict(unit="arrays=%s props=%s fixed_h=%s" % (
        layout, [sorted(p) for p in presence], fixed_h), obligations=0,
        discharged=0, undecided=[], outcomes={})
    arrays = []
    allv = []
    for ai, ((nr, ng), props) in enumerate(zip(layout, presence)):
        vals = {}
        for k in ("h",) + tuple(sorted(props)):
            vals[k] = [real("%s_%d_%d" % (k, ai, i)) for i in range(nr + ng)]
            allv.extend((k, v) for v in vals[k])
        arrays.append(ModelPA("a%d" % ai, nr, ng, vals))
    cfl = real("cfl")
    ncex = [0]

    def spec_of(model):
        sp = []
        for pa in arrays:
            sp.append((pa.name, pa.nreal, pa.nghost,
                       dict((k, [float(model_value(model, v.t)) for v in vs])
                            for k, vs in pa.vals.items())))
        return sp

    def run(c):
        c.assume_unchecked(cfl.t > 0)
        for k, v in allv:
            if k == "h":
                c.assume_unchecked(v.t > 0)
            else:
                c.assume_unchecked(v.t >= 0)
        integ = I.Integrator()
        ae = types.SimpleNamespace(particle_arrays=arrays)
        integ.set_acceleration_evals(ae)
        integ.set_fixed_h(fixed_h)
        return integ.compute_time_step(0.1, cfl)

    table = dict(MATH_TABLE)
    table["np"] = SymNP()
    with patched_globals(I, table):
        k = 0
        for path in explore(run, stats=stats):
            k += 1
            c = path.ctx
            if path.exc is not None:
                out.setdefault("harness_errors", []).append(
                    "compute_time_step raised %r" % (path.exc,))
                continue
            got = path.value
            key = "None" if got is None else "value"
            out["outcomes"][key] = out["outcomes"].get(key, 0) + 1
            alts, used, hs, crit = oracle(arrays, cfl, c)
            # documented result as a z3 term, with the same sqrt roots
            exp_terms = []
            applies = []
            if hs:
                hmin = z_min(hs)
                for kname in CRIT:
                    m = crit[kname]
                    if m is None:
                        continue
                    # the value is only meaningful when m > 0; build it under
                    # that assumption with fresh roots
                    if kname == "dt_force":
                        y1 = z3.Real("orc_r1_%d" % k)
                        y2 = z3.Real("orc_r2_%d" % k)
                        c.add(z3.Implies(m > 0, z3.And(y1 > 0, y1 * y1 == m,
                                                       y2 > 0,
                                                       y2 * y2 * y1 == hmin)))
                        val = y2
                    else:
                        val = hmin / m
                    exp_terms.append((m > 0, val))
            any_crit = z3.Or(*[cnd for cnd, _ in exp_terms]) if exp_terms \
                else z3.BoolVal(False)
            # minimum over applicable criteria
            big = z3.Real("orc_big_%d" % k)

            def formula_eq(g):
                # g == cfl * min{val_i : cond_i}
                conj = [z3.Implies(cnd, g <= cfl.t * val)
                        for cnd, val in exp_terms]
                disj = [z3.And(cnd, g == cfl.t * val)
                        for cnd, val in exp_terms]
                return z3.And(z3.And(*conj), z3.Or(*disj)) if disj else \
                    z3.BoolVal(False)
            if isinstance(got, float) and not math.isfinite(got):
                claim = z3.BoolVal(False)
                what = "path %d: returned the non-finite step %r" % (k, got)
            elif got is None:
                claim = z3.And(z3.Not(used), z3.Not(any_crit))
                what = "path %d: None only when no criterion applies" % k
            else:
                g = to_real(got)
                dmin = alts[0][1] if alts else None
                claim = z3.If(used, g == dmin if dmin is not None else False,
                              z3.And(any_crit, formula_eq(g)))
                what = "path %d: value equals the documented minimum" % k
            out["obligations"] += 1
            r, model = c.prove(claim, timeout_ms=timeout_ms)
            if r == "unsat":
                out["discharged"] += 1
            elif r == "sat":
                ncex[0] += 1
                p = common.write_replay(
                    PID, "cfg_%s_%d" % (abs(hash(out["unit"])) % 10**8,
                                        ncex[0]),
                    REPLAY % dict(spec=spec_of(model),
                                  cfl=float(model_value(model, cfl.t)),
                                  fixed_h=fixed_h))
                common.triage(PID, out, "%s: %s" % (out["unit"], what), p,
                              dict(unit="compute_time_step"))
            else:
                out["undecided"].append(what)
    out["stats"] = stats.as_dict()
    out["sample"] = dict(unit=out["unit"], outcomes=out["outcomes"])
    return out


REPLAY_FALLBACK = common.REPLAY_HEADER + '''
common.use_repo_with_build()
import types
from pysph.solver.solver import Solver
v, ret_none, adaptive = %(vals)r, %(ret_none)r, %(adaptive)r
s = Solver.__new__(Solver)
s.dt = v["dt"]; s._damping_factor = v["damp"]; s.adaptive_timestep = adaptive
s.cfl = 0.3; s.in_parallel = False
s.integrator = types.SimpleNamespace(compute_time_step=lambda d, cfl: None if ret_none else v["adt"])
got = s._compute_timestep()
exp = v["dt"]/v["damp"] if (ret_none or not adaptive) else v["adt"]
print(got, exp)
bad = None
if abs(got - exp) > 1e-12*abs(exp):
    bad = "_compute_timestep returned %%r, expected %%r" %% (got, exp)
sys.exit(common.replay_exit(bad))
'''


def unit_solver_fallback():
    """Solver._compute_timestep keeps the fixed step iff the integrator
    returns None (adaptive on, serial)."""
    common.use_repo_with_build()
    from pysph.solver import solver as S
    stats = Stats()
    out = dict(unit="Solver._compute_timestep fallback", obligations=0,
               discharged=0, undecided=[])
    dt, adt, damp = real("dt"), real("adapt_dt"), real("damp")

    for ret_none in (True, False):
        for adaptive in (True, False):
            def run(c):
                c.assume_unchecked(dt.t > 0)
                c.assume_unchecked(adt.t > 0)
                c.assume_unchecked(damp.t > 0)
                s = S.Solver.__new__(S.Solver)
                s.dt = dt
                s._damping_factor = damp
                s.adaptive_timestep = adaptive
                s.cfl = 0.3
                s.in_parallel = False
                s.integrator = types.SimpleNamespace(
                    compute_time_step=lambda d, cfl: None if ret_none else adt)
                return s._compute_timestep()
            for path in explore(run, stats=stats):
                if path.exc is not None:
                    out.setdefault("harness_errors", []).append(
                        "_compute_timestep raised %r" % (path.exc,))
                    continue
                exp = (dt.t / damp.t) if (ret_none or not adaptive) else adt.t
                out["obligations"] += 1
                r, model = path.ctx.prove(to_real(path.value) == exp)
                if r == "unsat":
                    out["discharged"] += 1
                elif r == "sat":
                    from vf.symx import model_value
                    vals = dict((k, float(model_value(model, v.t)))
                                for k, v in (("dt", dt), ("adt", adt),
                                             ("damp", damp)))
                    p = common.write_replay(
                        PID, "fallback_%s_%s" % (ret_none, adaptive),
                        REPLAY_FALLBACK % dict(vals=vals, ret_none=ret_none,
                                               adaptive=adaptive))
                    common.triage(
                        PID, out, "Solver._compute_timestep (integrator "
                        "returns %s, adaptive_timestep=%s) does not return "
                        "%s" % ("None" if ret_none else "a step", adaptive,
                                "the undamped fixed step" if
                                (ret_none or not adaptive) else
                                "the integrator's step"), p,
                        dict(unit="Solver._compute_timestep"))
                else:
                    out["undecided"].append("fallback")
    out["stats"] = stats.as_dict()
    return out


def configs(t):
    opt = ("dt_cfl", "dt_force", "dt_visc", "dt_adapt")
    subsets = [frozenset(s) for r in range(5)
               for s in itertools.combinations(opt, r)]
    cfgs = []
    # one array: all 16 presence patterns, (1 real), (2 real), (1 real+1 ghost)
    for lay in ([(1, 0)], [(2, 0)], [(1, 1)]):
        for s in subsets:
            cfgs.append((tuple(lay), (s,), False))
    # empty array next to a populated one; two populated arrays
    two = [frozenset(), frozenset(["dt_cfl"]), frozenset(["dt_adapt"]),
           frozenset(["dt_cfl", "dt_force", "dt_visc"]),
           frozenset(opt)]
    for s1 in two:
        for s2 in two:
            cfgs.append((((1, 0), (0, 0)), (s1, s2), False))
            cfgs.append((((1, 0), (1, 0)), (s1, s2), False))
    cfgs.append((((1, 0),), (frozenset(["dt_cfl"]),), True))
    if t == "thorough":
        for s1 in subsets:
            for s2 in subsets:
                cfgs.append((((1, 1), (2, 0)), (s1, s2), False))
        for s in subsets:
            cfgs.append((((2, 1),), (s,), True))
    return cfgs


def main():
    t = common.tier()
    common.use_repo()
    from pysph.sph import integrator as I
    rep = common.Report(
        PID, "other",
        "bounded symbolic execution of the real Integrator.compute_time_step"
        " / _get_explicit_dt_adapt / _get_dt_adapt_factors / "
        "compute_h_minimum on model particle arrays with exact-real values; "
        "z3 compares with the documented formula on every path")
    rep.functions = [common.func_ref(getattr(I.Integrator, f)) for f in
                     ("compute_time_step", "_get_explicit_dt_adapt",
                      "_get_dt_adapt_factors", "compute_h_minimum", "_my_max",
                      "set_fixed_h")]
    cfgs = configs(t)
    rep.bounds = dict(configurations=len(cfgs),
                      arrays="1-2", particles_per_array="0-2 real + 0-1 ghost",
                      presence_patterns="every subset of {dt_cfl, dt_force, "
                      "dt_visc, dt_adapt} for one array; selected pairs for "
                      "two (all pairs in the thorough tier)",
                      numeric_domain="exact reals")
    rep.assumptions = [
        "ParticleArray is a model exposing properties/get/attribute access/"
        "get_number_of_particles/get_carray('h').minimum; the carray minimum "
        "is the true minimum over all particles (refreshed by every domain "
        "update) and 0.0 for an empty array, as in cyarray",
        "criterion values >= 0, h > 0, cfl > 0",
        "numpy max/min/isinf/inf shadowed by symbolic-aware versions",
        "arrays whose particles are all ghosts are not generated"]
    rep.outside = ["GPU branches", "staleness of cached carray minima between "
                   "domain updates", "MPI reduction of the step"]
    units = [("vf.props.c19", "unit_config",
              dict(layout=l, presence=p, fixed_h=f)) for l, p, f in cfgs]
    units.append(("vf.props.c19", "unit_solver_fallback", {}))
    common.run_units(rep, units)
    return rep.finish()


if __name__ == "__main__":
    sys.exit(main())
