"""C01 -- neighbour search returns exactly the true neighbour set (partial).

(b) whole-algorithm bounded check for LinkedListNNPS: the Cython sources of
NNPS.update/_compute_bounds, LinkedListNNPS._refresh/_bin/
_get_number_of_cells/find_nearest_neighbors/... and the inline index
functions of nnps_base.pxd are lowered to Python (vf/cy2py.py) and run on
model arrays holding exact-real positions and smoothing lengths; z3 decides
on every path that the returned list equals the brute-force neighbour set.
(a) index-arithmetic lemmas on the lowered inline functions."""
import sys
import os

import z3

from vf import common, nnpsmodel as NM
from vf.symx import (explore, Stats, real, integer, to_real, model_value, rv,
                     sym_max, is_sym, SReal)

PID = "C01"
RS = 2.0


REPLAY = common.REPLAY_HEADER + '''
common.use_repo_with_build()
import numpy as np
from pysph.base.utils import get_particle_array
from pysph.base.nnps import LinkedListNNPS, SpatialHashNNPS, ExtendedSpatialHashNNPS
from cyarray.carray import UIntArray
dim, arrays, rs = %(dim)d, %(arrays)r, %(rs)r
pas = [get_particle_array(name="a%%d" %% i, x=a["x"], y=a["y"], z=a.get("z", [0.0]*len(a["x"])), h=a["h"]) for i, a in enumerate(arrays)]
cls = dict(ll=LinkedListNNPS, sh=SpatialHashNNPS, esh=ExtendedSpatialHashNNPS)[%(algo)r]
nn = cls(dim=dim, particles=pas, radius_scale=rs, cache=%(cache)r, sort_gids=%(sort_gids)r)
bad = None
nb = UIntArray()
sys.stdout.flush()
child = os.fork()        # a NULL context kills the process
if child == 0:
  for rnd in range(2):
    for di, d in enumerate(arrays):
      for si, s in enumerate(arrays):
        for i in reversed(range(len(d["x"]))):
            nn.get_nearest_particles(si, di, i, nb)
  os._exit(0)
_, st = os.waitpid(child, 0)
if os.WIFSIGNALED(st):
    print("arrays:", arrays)
    sys.exit(common.replay_exit("the neighbour queries kill the process with signal %%d" %% os.WTERMSIG(st)))
for rnd in range(2):
  for di, d in enumerate(arrays):
    for si, s in enumerate(arrays):
        for i in reversed(range(len(d["x"]))):
            nn.get_nearest_particles(si, di, i, nb)
            raw = [int(v) for v in nb.get_npy_array()]
            got = sorted(raw)
            exp = []; edge = False
            for j in range(len(s["x"])):
                d2 = (d["x"][i]-s["x"][j])**2 + (d["y"][i]-s["y"][j])**2 + (d.get("z", [0.0]*99)[i]-s.get("z", [0.0]*99)[j])**2
                r = rs*max(d["h"][i], s["h"][j])
                if abs(d2 - r*r) <= 1e-12*r*r: edge = True
                if d2 < r*r: exp.append(j)
            if not edge and got != exp:
                bad = "dest a%%d[%%d] against source a%%d: got %%r, true neighbours %%r" %% (di, i, si, raw, exp)
            if %(sort_gids)r and raw != got:
                bad = "dest a%%d[%%d] against source a%%d: neighbours %%r are not sorted" %% (di, i, si, raw)
print("arrays:", arrays)
sys.exit(common.replay_exit(bad))
'''


ALGO_NAMES = dict(ll="LinkedListNNPS", sh="SpatialHashNNPS",
                  esh="ExtendedSpatialHashNNPS")


def unit_linked_list(dim, layout, move=False, timeout_ms=20000,
                     max_paths=3000, fixed_cell=True, deadline_s=200,
                     algo="ll", cache=False, sort_gids=False, extent=3):
    """layout: particles per array"""
    common.use_repo()
    stats = Stats()
    out = dict(unit="%s%s%s dim=%d arrays=%s%s%s" % (
        ALGO_NAMES[algo], " cache" if cache else "",
        " sort_gids" if sort_gids else "",
        dim, layout, " move+update" if move else "",
        " max(h)=0.5" if fixed_cell else " symbolic cell size"),
        obligations=0,
        discharged=0, undecided=[], outside=0)
    try:
        M = NM.base_module()
    except Exception as e:
        out.setdefault("harness_errors", []).append(
            "lowering failed: %r" % (e,))
        out["stats"] = stats.as_dict()
        return out
    ncex = [0]
    findings = common.load_findings(PID)

    def mk(c, suffix=""):
        pas, coords = [], []
        hs = []
        for a, n in enumerate(layout):
            xs = [real("x%d_%d%s" % (a, i, suffix)) for i in range(n)]
            ys = [real("y%d_%d%s" % (a, i, suffix)) if dim > 1 else 0.0
                  for i in range(n)]
            zs = [real("z%d_%d%s" % (a, i, suffix)) if dim > 2 else 0.0
                  for i in range(n)]
            h = [real("h%d_%d" % (a, i)) for i in range(n)]
            hs += h
            coords.append((xs, ys, h, zs))
        return coords, hs

    def run(c):
        coords, hs = mk(c)
        for h in hs:
            c.assume_unchecked(h.t > 0)
        hmax = sym_max(hs) if len(hs) > 1 else hs[0]
        cs = RS * hmax                 # CPUDomainManager's cell size
        if fixed_cell:
            # the largest smoothing length is 0.5: the cell size is the
            # constant 1.0 and the cell index floor(x/1.0) stays linear
            c.assume(to_real(hmax) == rv(0.5))
            cs = 1.0
        # cell size >= 0.3: the unit box of a degenerate distribution then
        # has at most 4 cells per direction (path bound)
        c.assume_unchecked(to_real(cs) >= rv(0.3))
        # bounded extent: all coordinates within 3 cells of each other,
        # smoothing lengths within a factor 4
        for (xs, ys, h, zs) in coords:
            for v in list(xs) + [y for y in list(ys) + list(zs)
                                 if is_sym(y)]:
                c.assume_unchecked(z3.And(v.t >= 0,
                                          v.t <= extent * to_real(cs)))
        for h in hs:
            c.assume_unchecked(4 * h.t >= to_real(hmax))
        pas = []
        for a, (xs, ys, h, zs) in enumerate(coords):
            n = len(xs)
            pas.append(NM.RecPA("a%d" % a, dict(
                x=list(xs), y=list(ys), z=list(zs), h=list(h),
                gid=[NM.UINT_MAX if sort_gids else 0] * n, tag=[0] * n)))
        if algo == "ll":
            nn = NM.linked_list(M, pas, dim, RS, cs)
            nn.sort_gids = sort_gids
        elif algo == "sh":
            nn = NM.spatial_hash(M, pas, dim, RS, cs, sort_gids=sort_gids)
        else:
            nn = NM.extended_spatial_hash(M, pas, dim, RS, cs,
                                          sort_gids=sort_gids)
        if cache:
            NM.enable_cache(M, nn)
        nn.update()
        if move:
            for a, (xs, ys, h, zs) in enumerate(coords):
                for i in range(len(xs)):
                    nx = real("mx%d_%d" % (a, i))
                    c.assume_unchecked(z3.And(nx.t >= 0,
                                              nx.t <= 3 * to_real(cs)))
                    pas[a].properties["x"].data[i] = nx
                    xs[i] = nx
            nn.update()
        results = []
        for di in range(len(pas)):
            for si in range(len(pas)):
                n_d = len(coords[di][0])
                if not cache:
                    for i in range(n_d):
                        nb = NM.SymArray()
                        nn.get_nearest_particles_no_cache(si, di, i, nb,
                                                          False)
                        results.append((di, si, i,
                                        [int(v) for v in nb.data]))
                    continue
                # the neighbour cache (one thread): lists are appended to a
                # shared buffer in the order of the first queries and read
                # back as views; every list is read twice
                # through the public entry point, which sets the context
                for rnd_ in range(2):
                    for i in reversed(range(n_d)):
                        nb = NM.SymArray()
                        nn.get_nearest_particles(si, di, i, nb)
                        results.append((di, si, i,
                                        [int(v) for v in nb.data]))
        return coords, results

    k = 0
    for path in explore(run, stats=stats, max_paths=max_paths,
                        fork_minmax=True, feas_timeout_ms=5000,
                        deadline_s=deadline_s):
        k += 1
        c = path.ctx
        if isinstance(path.exc, RuntimeError):
            out["outside"] += 1          # documented error paths
            continue
        if isinstance(path.exc, IndexError):
            # an out-of-bounds access of a lowered array: memory error in C
            what = "out-of-bounds array access while binning/searching " \
                "(%s)" % path.exc
            _cex(out, c, dim, layout, what, ncex, findings, coords=None,
                 kind="oob", opts=(algo, cache, sort_gids))
            continue
        if isinstance(path.exc, AttributeError) and \
                "'NoneType' object" in str(path.exc):
            what = "a query dereferences the NULL search context (no " \
                "set_context before it): %s" % path.exc
            _cex(out, c, dim, layout, what, ncex, findings, coords=None,
                 kind="null_context", opts=(algo, cache, sort_gids))
            continue
        if path.exc is not None and "solver said unknown" in str(path.exc):
            out["undecided"].append("path %d: %s" % (k, path.exc))
            continue
        if path.exc is not None:
            out.setdefault("harness_errors", []).append(
                "lowered code raised %r" % (path.exc,))
            continue
        coords, results = path.value
        claims = []
        for (di, si, i, got) in results:
            xs, ys, hd, zs = coords[di]
            sx, sy, sh, sz = coords[si]
            if sort_gids and got != sorted(got):
                claims.append(z3.BoolVal(False))
                continue
            if len(got) != len(set(got)) or any(
                    j < 0 or j >= len(sx) for j in got):
                claims.append(z3.BoolVal(False))
                continue
            for j in range(len(sx)):
                d2 = (to_real(xs[i]) - to_real(sx[j])) ** 2 + \
                    (to_real(ys[i]) - to_real(sy[j])) ** 2 + \
                    (to_real(zs[i]) - to_real(sz[j])) ** 2
                hm = z3.If(hd[i].t >= sh[j].t, hd[i].t, sh[j].t)
                near = d2 < (rv(RS) * hm) ** 2
                edge = d2 == (rv(RS) * hm) ** 2
                claims.append(z3.Or(edge, near) if j in got else
                              z3.Or(edge, z3.Not(near)))
        out["obligations"] += 1
        r, model = c.prove(z3.And(*claims) if claims else z3.BoolVal(True),
                           timeout_ms=timeout_ms)
        if r == "unsat":
            out["discharged"] += 1
        elif r == "sat":
            _cex(out, c, dim, layout, "neighbour list differs from the true "
                 "neighbour set", ncex, findings, coords=coords, model=model,
                 kind="set", opts=(algo, cache, sort_gids))
        else:
            out["undecided"].append("path %d" % k)
    out["stats"] = stats.as_dict()
    out["sample"] = dict(unit=out["unit"], paths=k)
    return out


def _cex(out, c, dim, layout, what, ncex, findings, coords=None, model=None,
         kind="set", opts=("ll", False, False)):
    if ncex[0] >= 6:
        return
    ncex[0] += 1
    if model is None:
        if c.reachable() != "sat":
            out["undecided"].append("model for " + what)
            return
        model = c.last_model_solver.model()
    arrays = []
    for a, n in enumerate(layout):
        def val(nm):
            for pref in ("m", ""):
                t = z3.Real(pref + nm) if pref else z3.Real(nm)
                if pref == "m" and not any(d.name() == "m" + nm
                                           for d in model.decls()):
                    continue
                return float(model_value(model, t))
        arrays.append(dict(
            x=[val("x%d_%d" % (a, i)) for i in range(n)],
            y=[float(model_value(model, z3.Real("y%d_%d" % (a, i))))
               if dim > 1 else 0.0 for i in range(n)],
            z=[float(model_value(model, z3.Real("z%d_%d" % (a, i))))
               if dim > 2 else 0.0 for i in range(n)],
            h=[float(model_value(model, z3.Real("h%d_%d" % (a, i))))
               for i in range(n)]))
    coincident = all(len(set(a["x"])) <= 1 and len(set(a["y"])) <= 1
                     for a in arrays) and \
        len(set(a["x"][0] for a in arrays if a["x"])) <= 1
    p = common.write_replay(PID, "%s%s%s_d%d_%s_%d" % (
        opts[0], "c" if opts[1] else "", "s" if opts[2] else "",
        dim, "x".join(map(str, layout)), ncex[0]), REPLAY % dict(
            dim=dim, arrays=arrays, rs=RS, cache=opts[1], algo=opts[0],
            sort_gids=opts[2]))
    common.triage(PID, out, "%s: %s" % (out["unit"], what), p,
                  dict(unit=ALGO_NAMES[opts[0]], kind=kind, dim=dim,
                       degenerate=coincident), findings, soft=True)


# ---------------------------------------------------------------------------
# (a) index lemmas on the lowered inline functions

def unit_lemmas():
    common.use_repo()
    stats = Stats()
    out = dict(unit="index lemmas (nnps_base.pxd)", obligations=0,
               discharged=0, undecided=[])
    M = NM.base_module()
    ns = M.ns

    def lemma(name, fn):
        for path in explore(fn, stats=stats, max_paths=500):
            if path.exc is not None:
                out.setdefault("harness_errors", []).append(
                    "%s raised %r" % (name, path.exc))
                continue
            claim = path.value
            out["obligations"] += 1
            r, model = path.ctx.prove(claim, timeout_ms=20000)
            if r == "unsat":
                out["discharged"] += 1
            elif r == "sat":
                out.setdefault("harness_errors", []).append(
                    "lemma %s fails: %s" % (name, model))
            else:
                out["undecided"].append(name)

    # L1 stencil sufficiency (one axis): |xi-xj| < cs => cell ids differ
    # by at most 1, where cs >= rs*max(h) and the cut-off is rs*max(h)
    def l1(c):
        xi, xj, cs = real("xi"), real("xj"), real("cs")
        c.assume_unchecked(cs.t > 0)
        c.assume_unchecked(z3.And(xi.t >= 0, xj.t >= 0))
        ci = ns["real_to_int"](xi, cs)
        cj = ns["real_to_int"](xj, cs)
        d = xi.t - xj.t
        near = z3.And(d < cs.t, -d < cs.t)
        from vf.symx import to_int
        return z3.Implies(near, z3.And(to_int(ci) - to_int(cj) <= 1,
                                       to_int(cj) - to_int(ci) <= 1))
    lemma("L1 stencil sufficiency", l1)

    # L2 flatten_raw injective on valid ids; get_valid_cell_index >= 0 iff
    # the id is valid
    def l2(c):
        ids = [integer(n) for n in ("ax", "ay", "az", "bx", "by", "bz")]
        nc = [integer(n) for n in ("ncx", "ncy", "ncz")]
        for v in nc:
            c.assume_unchecked(z3.And(v.t >= 1, v.t <= 3))
        for v, m in zip(ids, nc + nc):
            c.assume_unchecked(z3.And(v.t >= 0, v.t < m.t))
        arr = NM.SymArray()
        arr.set_data(nc)
        fa = ns["flatten_raw"](ids[0], ids[1], ids[2], arr.data, 3)
        fb = ns["flatten_raw"](ids[3], ids[4], ids[5], arr.data, 3)
        from vf.symx import to_int
        same = z3.And(*[ids[i].t == ids[i + 3].t for i in range(3)])
        return z3.Implies(to_int(fa) == to_int(fb), same)
    lemma("L2 flatten injective", l2)

    def l3(c):
        ids = [integer(n) for n in ("cx", "cy", "cz")]
        nc = [integer(n) for n in ("ncx", "ncy", "ncz")]
        for v in nc:
            c.assume_unchecked(z3.And(v.t >= 1, v.t <= 3))
        for v in ids:
            c.assume_unchecked(z3.And(v.t >= -2, v.t <= 4))
        arr = NM.SymArray()
        arr.set_data(nc)
        ncell = nc[0] * nc[1] * nc[2]
        r = ns["get_valid_cell_index"](ids[0], ids[1], ids[2], arr.data, 3,
                                       ncell)
        from vf.symx import to_int
        valid = z3.And(*[z3.And(i.t >= 0, i.t < m.t)
                         for i, m in zip(ids, nc)])
        return z3.And(valid == (to_int(r) >= 0),
                      z3.Implies(valid, to_int(r) < to_int(ncell)))
    lemma("L2' get_valid_cell_index", l3)
    out["stats"] = stats.as_dict()
    return out


def unit_acceptance():
    """every find_nearest_neighbors uses the same symmetric acceptance test
    (xij2 < hi2) or (xij2 < hj2)"""
    import re
    common.use_repo()
    out = dict(unit="acceptance predicate in every *_nnps.pyx",
               obligations=0, discharged=0, undecided=[], files={})
    b = os.path.join(common.REPO, "pysph", "base")
    for f in sorted(os.listdir(b)):
        if not f.endswith("_nnps.pyx") or "gpu" in f:
            continue
        txt = open(os.path.join(b, f)).read()
        tests = re.findall(r"if\s*\(?\s*\(?\s*(\w+)\s*<\s*(\w+)\s*\)?\s*or"
                           r"\s*\(?\s*(\w+)\s*<\s*(\w+)\s*\)?\s*\)?\s*:",
                           txt)
        out["files"][f] = len(tests)
        out["obligations"] += 1
        ok = len(tests) >= 1 and all(t[0] == t[2] and t[1] != t[3]
                                     for t in tests)
        if ok:
            out["discharged"] += 1
        else:
            out.setdefault("harness_errors", []).append(
                "%s: acceptance test not of the form (d2 < hi2) or "
                "(d2 < hj2): %r" % (f, tests))
    out["stats"] = Stats().as_dict()
    return out


def main():
    t = common.tier()
    common.use_repo()
    rep = common.Report(
        PID, "other",
        "the Cython sources of LinkedListNNPS (update, binning, query) and "
        "the inline index functions are lowered to Python and executed on "
        "exact-real positions and smoothing lengths; z3 decides on every "
        "path that the neighbour list equals the brute-force set; index "
        "lemmas are decided on the lowered inline functions")
    b = os.path.join(common.REPO, "pysph", "base")
    rep.functions = ["%s sha=%s" % (f, common.sha_of(os.path.join(b, f)))
                     for f in ("nnps_base.pyx", "nnps_base.pxd",
                               "linked_list_nnps.pyx")]
    units = [("vf.props.c01", "unit_lemmas", {}),
             ("vf.props.c01", "unit_acceptance", {})]
    if t == "quick":
        cfgs = [(1, (1,), False), (1, (2,), False), (1, (3,), False),
                (1, (1, 1), False), (2, (1,), False), (2, (2,), False),
                (1, (2,), True)]
    else:
        cfgs = [(1, (1,), False), (1, (2,), False), (1, (3,), False),
                (1, (1, 1), False), (1, (2, 1), False), (2, (1,), False),
                (2, (2,), False), (2, (3,), False), (2, (1, 1), False),
                (1, (2,), True), (1, (3,), True), (2, (2,), True)]
    for dim, lay, mv in cfgs:
        units.append(("vf.props.c01", "unit_linked_list",
                      dict(dim=dim, layout=lay, move=mv,
                           deadline_s=200 if t == "quick" else 1400,
                           max_paths=3000 if t == "quick" else 20000)))
    dl = 200 if t == "quick" else 1400
    # neighbour cache + sort_gids (LinkedListNNPS), SpatialHashNNPS
    extra = [dict(dim=1, layout=(2,), cache=True, sort_gids=True),
             dict(dim=1, layout=(3,), cache=True, sort_gids=True),
             dict(dim=2, layout=(2,), cache=True),
             dict(dim=1, layout=(2,), algo="sh"),
             dict(dim=1, layout=(1, 1), algo="sh", sort_gids=True),
             dict(dim=2, layout=(2,), algo="sh"),
             dict(dim=3, layout=(2,), algo="sh", extent=2),
             dict(dim=1, layout=(2,), algo="esh"),
             dict(dim=1, layout=(1, 1), algo="esh"),
             dict(dim=2, layout=(2,), algo="esh")]
    if t != "quick":
        extra += [dict(dim=1, layout=(2, 1), cache=True, sort_gids=True),
                  dict(dim=1, layout=(3,), algo="sh"),
                  dict(dim=2, layout=(2,), algo="sh", cache=True,
                       sort_gids=True),
                  dict(dim=3, layout=(1, 1), algo="sh", extent=2)]
    for kw in extra:
        units.append(("vf.props.c01", "unit_linked_list",
                      dict(deadline_s=dl, max_paths=3000 if t == "quick"
                           else 20000, **kw)))
    units.append(("vf.props.c01", "unit_linked_list",
                  dict(dim=1, layout=(1,), fixed_cell=False)))
    if t != "quick":
        units.append(("vf.props.c01", "unit_linked_list",
                      dict(dim=1, layout=(2,), fixed_cell=False,
                           deadline_s=1400, max_paths=20000)))
    rep.bounds = dict(algorithm="LinkedListNNPS (cache off; cache on and "
                      "sort_gids in extra units), SpatialHashNNPS (dims "
                      "1-3, n = 2), ExtendedSpatialHashNNPS (H = 3, exact "
                      "mask; dims 1-2, n = 2)", extra_units=extra,
                      configurations=[dict(dim=d, particles_per_array=l,
                                           move_then_update=m)
                                      for d, l, m in cfgs],
                      extent="coordinates within 3 cells; smoothing lengths "
                      "within a factor 4; cell size = radius_scale*max(h) "
                      ">= 0.3",
                      numeric_domain="exact reals (pairs exactly on the "
                      "cut-off may go either way)")
    rep.assumptions = [
        "the Cython->Python lowering (vf/cy2py.py) is trusted; C casts to "
        "int truncate; arrays are bounds-checked (an out-of-range index is "
        "reported)", "cyarray arrays and ParticleArray are models "
        "(vf/nnpsmodel.py)", "cell size as computed by "
        "CPUDomainManager._compute_cell_size_for_binning (radius_scale * "
        "max h, >= 1e-6)", "sequential semantics (one thread fills the "
        "neighbour cache)", "the C++ HashTable of spatial_hash.h is "
        "modelled by its contract (a map from exact cell coordinates to the "
        "indices in insertion order) and NNPS._sort_neighbors (std::sort) "
        "by a model that sorts the addressed slice"]
    rep.outside = ["the other 9 neighbour algorithms beyond the index "
                   "lemmas and the acceptance-predicate check", "n > 3; "
                   "dim 3 for LinkedListNNPS",
                   "OpenMP filling of the cache",
                   "IEEE rounding of the cell index (lemma L1' of the "
                   "design is not built)", "z_order.h / spatial_hash.h "
                   "bit-vector lemmas (not built)"]
    common.run_units(rep, units)
    return rep.finish()


if __name__ == "__main__":
    sys.exit(main())
