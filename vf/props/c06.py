"""C06 - a particle array stays coherent under any sequence of operations.

Every method of ParticleArray is lowered from the working tree's
particle_array.pyx (vf/cy2py.py, typed bindings kept) and executed on the
cyarray model of vf/pa06.py.  Property values are uninterpreted symbols,
tags are symbolic integers in {0,1,2} (the path explorer forks wherever the
code compares a tag), the structure (number of particles <= 3, property
sets, operation arguments) is enumerated.  After every operation of a
program (an initial array followed by 1..3 public calls) the state is
compared with the record-list specification of the same calls; every
equality is a solver claim on the path.

A failing program is replayed, with the model's tag values and distinct
concrete numbers, on the compiled ParticleArray of the working tree."""
import os
import sys
import time
import itertools

import z3

from vf import common, symx, pa06, c06_ops as O
from vf.symx import Stats, explore, is_sym, to_real, to_int

PID = "C06"


# ---------------------------------------------------------------------------
# state comparison (symbolic and concrete)

class Eq(object):
    """equality oracle: structural first, then the solver on the path"""

    def __init__(self, ctx=None, stats=None):
        self.ctx = ctx
        self.n_claims = 0
        self.n_unknown = 0

    def term(self, v):
        if isinstance(v, symx.SBool):
            v = v._num()
        return v.t if is_sym(v) else None

    def __call__(self, a, b):
        if a is pa06.JUNK or b is pa06.JUNK:
            return False
        if not is_sym(a) and not is_sym(b):
            try:
                return bool(a == b)
            except Exception:
                return False
        self.n_claims += 1
        ta, tb = self.term(a), self.term(b)
        if ta is not None and tb is not None and z3.eq(ta, tb):
            self.ctx.stats.queries["unsat"] += 1
            return True
        try:
            if ta is not None and z3.is_int(ta) and \
                    (tb is None or z3.is_int(tb)) and \
                    not isinstance(b, float):
                claim = to_int(a) == to_int(b)
            else:
                claim = to_real(a) == to_real(b)
        except Exception:
            return False
        r, _ = self.ctx.prove(symx.SBool(claim), timeout_ms=10000)
        if r == "unknown":
            self.n_unknown += 1
            return None
        return r == "unsat"


def snapshot(pa):
    props = {}
    for p, arr in pa.properties.items():
        props[p] = (arr.get_c_type(), list(arr.get_npy_array().tolist()))
    consts = dict((k, list(v.get_npy_array().tolist()))
                  for k, v in pa.constants.items())
    return dict(props=props, stride=dict(pa.stride),
                defaults=dict(pa.default_values), constants=consts,
                nrp=pa.num_real_particles, n=pa.get_number_of_particles(),
                out=pa.output_property_arrays, name=pa.name)


def tup_eq(eq, a, b):
    if len(a) != len(b):
        return False
    unk = False
    for x, y in zip(a, b):
        r = eq(x, y)
        if r is False:
            return False
        if r is None:
            unk = True
    return None if unk else True


def rec_eq(eq, names, r1, r2):
    unk = False
    for p in names:
        r = tup_eq(eq, r1[p], r2[p])
        if r is False:
            return False
        if r is None:
            unk = True
    return None if unk else True


def compare(pa, spec, eq, ordered, aligned, what):
    """problems (list of strings) of the implementation state against the
    specification state; re-synchronises spec.recs to the implementation's
    order when the order is left open"""
    s = snapshot(pa)
    bad = []
    unk = []
    if set(s["props"]) != set(spec.props):
        return ["properties %s, expected %s" % (
            sorted(s["props"]), sorted(spec.props))], unk
    n = s["n"]
    if n != spec.n():
        bad.append("%d particles, expected %d" % (n, spec.n()))
    for p, (ct, vals) in s["props"].items():
        ect, est, edf = spec.props[p]
        if ct != ect:
            bad.append("property %s has C type %s, expected %s" %
                       (p, ct, ect))
        st = s["stride"].get(p, 1)
        if st != est:
            bad.append("stride of %s is %r, expected %r" %
                       (p, st, est))
        if len(vals) != spec.n() * est:
            bad.append("property %s holds %d values for %d particles "
                       "of stride %d" % (p, len(vals), spec.n(), est))
    if set(s["defaults"]) != set(s["props"]):
        bad.append("default_values has keys %s for properties %s" % (
            sorted(s["defaults"]), sorted(s["props"])))
    else:
        for p in s["props"]:
            r = eq(s["defaults"][p], spec.props[p][2])
            if r is False:
                bad.append("default of %s is %r, expected %r" % (
                    p, s["defaults"][p], spec.props[p][2]))
            elif r is None:
                unk.append("default of %s" % (p))
    stale = sorted(set(s["stride"]) - set(s["props"]))
    if stale:
        bad.append("stride still lists removed properties %s" %
                   (stale))
    if set(s["constants"]) != set(spec.constants):
        bad.append("constants %s, expected %s" % (
            sorted(s["constants"]), sorted(spec.constants)))
    else:
        for k, v in s["constants"].items():
            r = tup_eq(eq, tuple(v), tuple(spec.constants[k]))
            if r is False:
                bad.append("constant %s changed: %r, expected %r" % (
                    k, v, spec.constants[k]))
            elif r is None:
                unk.append("constant %s" % (k))
    if spec.out is not None:
        out = s["out"]
        if out is None or sorted(out) != sorted(spec.out):
            bad.append("output_property_arrays %r, expected %r" % (
                out, spec.out))
    if s["name"] != spec.name:
        bad.append("name %r, expected %r" % (s["name"], spec.name))
    if bad:
        return bad, unk
    names = sorted(spec.props)
    impl = []
    for i in range(n):
        impl.append(dict((p, tuple(
            s["props"][p][1][i * spec.props[p][1]:(i + 1) * spec.props[p][1]]))
            for p in names))
    # adopt unspecified records (Resize growing)
    for i, r in enumerate(spec.recs):
        if r is None:
            spec.recs[i] = dict(impl[i])
    if ordered:
        for i in range(n):
            r = rec_eq(eq, names, impl[i], spec.recs[i])
            if r is False:
                bad.append("particle %d is %s, expected %s" % (
                    i, _show(impl[i]), _show(spec.recs[i])))
            elif r is None:
                unk.append("particle %d" % (i))
    else:
        left = list(range(n))
        order = []
        for i in range(n):
            hit = None
            for j in left:
                r = rec_eq(eq, names, impl[i], spec.recs[j])
                if r:
                    hit = j
                    break
                if r is None:
                    unk.append("particle %d vs record %d" % (i, j))
            if hit is None:
                bad.append("particle %d = %s is none of the expected "
                           "records %s" % (i, _show(impl[i]), [
                               _show(spec.recs[j]) for j in left]))
                break
            left.remove(hit)
            order.append(hit)
        if not bad:
            spec.recs = [spec.recs[j] for j in order]
    if bad:
        return bad, unk
    if aligned:
        nloc = 0
        seen_other = False
        for i in range(n):
            t = impl[i]["tag"][0]
            r = eq(t, pa06.Local)
            if r is None:
                unk.append("tag of particle %d" % (i))
                break
            if r:
                nloc += 1
                if seen_other:
                    bad.append("Local particle at %d after a non-Local "
                               "one (not aligned)" % (i))
                    break
            else:
                r2 = eq_ne(eq, t, pa06.Local)
                if r2 is not True:
                    # tag neither provably Local nor provably not: the path
                    # did not decide it although the code aligned
                    unk.append("tag of particle %d undecided on the "
                               "path" % (i))
                    break
                seen_other = True
        else:
            if not is_sym(s["nrp"]) and s["nrp"] != nloc:
                bad.append("num_real_particles=%r but %d Local "
                           "particles" % (s["nrp"], nloc))
    return bad, unk


def eq_ne(eq, a, b):
    if not is_sym(a) and not is_sym(b):
        return a != b
    r, _ = eq.ctx.prove(symx.SBool(to_int(a) != to_int(b)), timeout_ms=10000)
    return True if r == "unsat" else (None if r == "unknown" else False)


def _show(r):
    return "{%s}" % ", ".join("%s=%s" % (k, ",".join(
        str(getattr(x, "t", x)) for x in v)) for k, v in sorted(r.items()))


# ---------------------------------------------------------------------------
# program execution

class Problem(Exception):
    def __init__(self, step, what, details):
        self.step = step
        self.what = what
        self.details = details
        self.msgs = ["%s: %s" % (what, d) for d in details]
        Exception.__init__(self, "; ".join(self.msgs))


def run_program(prog, env, fac, eq):
    """executes (init, aux_inits, ops); raises Problem at the first
    discrepancy; returns 'skipped' if an op's documented precondition does
    not hold, else the list of undecided claims"""
    init, aux_inits, ops = prog
    unknown = []
    pa = init.build(env, fac)
    spec = init.spec(env)
    aux = {}
    used = set(getattr(o, "other", None) for o in ops) | \
        set(getattr(o, "dest", None) for o in ops)
    for nm, ai in aux_inits.items():
        if nm in used:
            aux[nm] = [ai.build(env, fac), ai.spec(env)]
    what = "after construction"
    bad, unk = compare(pa, spec, eq, False, True, what)
    unknown += unk
    if bad:
        raise Problem(0, what, bad)
    aligned = True
    for k, op in enumerate(ops):
        what = "step %d %r" % (k + 1, op)
        if not op.valid(spec, aux):
            return "skipped"
        ret_spec = op.apply(spec, env, aux)
        try:
            ret = op.run(pa, env, fac, aux)
        except symx.PathAbort:
            raise
        except Exception as e:
            raise Problem(k + 1, what, ["the call raised %s: %s" % (
                type(e).__name__, str(e)[:200])])
        if op.returns == "self":
            pa = ret
        if op.aligned:
            aligned = True
        elif not op.keeps_alignment:
            aligned = False
        # an alignment moves particles by swapping: the order is open
        ordered = not (op.reorders or op.aligned)
        bad, unk = compare(pa, spec, eq, ordered, aligned, what)
        unknown += unk
        if bad:
            raise Problem(k + 1, what, bad)
        if op.returns == "array":
            w2 = what + " (returned array)"
            ral = getattr(op, "_result_aligned", False)
            bad, unk = compare(ret, ret_spec, eq, not ral, ral, w2)
            unknown += unk
            if bad:
                raise Problem(k + 1, w2, bad)
        # operands must be untouched
        for nm, (apa, aspec) in aux.items():
            if getattr(op, "dest", None) == nm or \
                    getattr(op, "other", None) != nm:
                continue
            w2 = what + " (argument array %s)" % nm
            bad, unk = compare(apa, aspec, eq, True, False, w2)
            unknown += unk
            if bad:
                raise Problem(k + 1, w2, bad)
    return unknown


# ---------------------------------------------------------------------------
# factories

def lowered_factory():
    cls, M = pa06.lowered_particle_array()

    def roundtrip(pa):
        c, args, state = pa.__reduce__()
        st = dict(name=state["name"], properties={}, constants={})
        for p, info in state["properties"].items():
            i2 = dict(info)
            i2["data"] = pa06.NpList(list(info["data"]), info["data"].dtype)
            st["properties"][p] = i2
        for p, info in state["constants"].items():
            arr = info["data"]
            cp = type(arr)(0)
            cp.data = list(arr.data)
            st["constants"][p] = dict(name=p, data=cp)
        new = c(*args)
        new.__setstate__(st)
        return new
    fac = O.Factory(cls, pa06.LongArray, to_data=list)
    fac.pickle_roundtrip = roundtrip
    return fac


def compiled_factory():
    common.use_repo_with_build()
    import pickle
    from pysph.base.particle_array import ParticleArray
    from cyarray.api import LongArray
    fac = O.Factory(ParticleArray, LongArray, to_data=list)
    fac.pickle_roundtrip = lambda pa: pickle.loads(pickle.dumps(pa))
    return fac


def sym_make(ctx):
    def make(tok):
        nm = tok[2:]
        if tok[0] == "r":
            return symx.real(nm)
        v = symx.integer(nm)
        if tok[0] == "t":
            ctx.add(z3.And(v.t >= 0, v.t <= 2))
        return v
    return make


# ---------------------------------------------------------------------------
# programs

def DBL(d=None):
    return ("double", 1, d)


INITS = {
    "x": lambda n: O.Init("a", n, dict(x=DBL()), label="x"),
    "xAm": lambda n: O.Init("a", n, dict(
        x=DBL(), A=("double", 2, "r:a_defA"), m=("int", 1, 7)),
        constants=dict(c=["r:a_c0", "r:a_c1"]), label="xAm"),
    "types": lambda n: O.Init("a", n, dict(
        x=DBL(), f=("float", 1, None), u=("unsigned int", 1, 5),
        w=("long", 1, "i:a_defw"), q=DBL()), label="types"),
    "notags": lambda n: O.Init("a", n, dict(x=DBL(), A=("double", 2, None)),
                               tags=False, label="notags"),
}


def aux_inits():
    return dict(
        b=O.Init("b", 2, dict(x=("double", 1, "r:b_defx"),
                              B=("double", 2, "r:b_defB"),
                              m=("int", 1, 9)),
                 constants=dict(cb=["r:b_c0"], c=["r:b_c1", "r:b_c2"]),
                 label="b"),
        b0=O.Init("b0", 0, dict(x=DBL(), B=("double", 2, None)), label="b0"),
        d=O.Init("d", 1, dict(x=DBL(), A=("double", 2, "r:d_defA"),
                              m=("int", 1, 1)), tags=False, label="d"))


def alphabet(full=True):
    ops = [
        lambda: O.AddParticles(1, ["x"], uid=1),
        lambda: O.AddParticles(2, ["x", "A"], tag=True, uid=2),
        lambda: O.AddParticles(1, ["x"], align=False, tag=True, uid=3),
        lambda: O.AddParticles(2, [], tag=True, uid=4),
        lambda: O.RemoveParticles([0]),
        lambda: O.RemoveParticles([1]),
        lambda: O.RemoveParticles([0, 2]),
        lambda: O.RemoveParticles([1, 0], align=False, as_long=True),
        lambda: O.RemoveTagged(1),
        lambda: O.RemoveTagged(2, align=False),
        lambda: O.RemoveTagged(0),
        lambda: O.Extend(1),
        lambda: O.Extend(2),
        lambda: O.AppendParray("b"),
        lambda: O.AppendParray("b", align=False, update_constants=True),
        lambda: O.AppendParray("b0"),
        lambda: O.Extract([0]),
        lambda: O.Extract([1, 0]),
        lambda: O.Extract([0], props=["x"]),
        lambda: O.Extract([1], props=["x", "A", "tag"]),
        lambda: O.Extract([0], dest="d"),
        lambda: O.Extract([0, 1], dest="d", align=False, as_long=True),
        lambda: O.AddProperty("p1", uid=1),
        lambda: O.AddProperty("p2", "int", default=3, uid=2),
        lambda: O.AddProperty("p3", data=True, stride=2, uid=3),
        lambda: O.AddProperty("p4", default="r:defp4", uid=4),
        lambda: O.AddProperty("A", stride=1, uid=5),
        lambda: O.AddProperty("A", stride=2, default="r:defA2", uid=6),
        lambda: O.AddProperty("x", uid=7),
        lambda: O.AddProperty("x", data=True, uid=8),
        lambda: O.AddProperty("p5", data=True, stride=1, uid=9, k=2),
        lambda: O.AddProperty("p6", data=True, stride=3, uid=10, k=1),
        lambda: O.RemoveProperty("A"),
        lambda: O.RemoveProperty("x"),
        lambda: O.RemoveProperty("m"),
        lambda: O.AddConstant("k", uid=1),
        lambda: O.Resize(-1),
        lambda: O.Resize(1),
        lambda: O.Align(),
        lambda: O.SetTag(2, [0]),
        lambda: O.SetTag(0, [1]),
        lambda: O.SetProp("x", uid=1),
        lambda: O.SetProp("tag", uid=2),
        lambda: O.SetProp("A", uid=3),
        lambda: O.EmptyClone(),
        lambda: O.EmptyClone(["x"]),
        lambda: O.CopyProperties("b"),
        lambda: O.CopyProperties("b", 0, 1),
        lambda: O.CopyProperties("b", 1),
        lambda: O.CopyOver({"x": "q"}),
        lambda: O.CopyOver({"x": "p1"}),
        lambda: O.SetToZero(["x"]),
        lambda: O.SetToZero(["A"]),
        lambda: O.SetPid(3),
        lambda: O.EnsureProperties("b"),
        lambda: O.EnsureProperties("b", ["B"]),
        lambda: O.SetOutput(["x", "A"]),
        lambda: O.SetOutput(["x"], add=True),
        lambda: O.Pickle(),
    ]
    return ops


# the operations that change structure or bookkeeping: middle and last
# operation of the 3-operation programs (57*19*19 programs)
CORE = (1, 2, 4, 7, 8, 11, 13, 14, 21, 23, 24, 26, 27, 30, 32, 37, 38, 40, 42,
        58)


def programs(spec):
    """spec = (init key, n, depth, first-op slice)"""
    key, n, depth, sl = spec
    alpha = alphabet()
    firsts = alpha[sl[0]:sl[1]] if sl else alpha
    if depth == 3:
        core = [alpha[i] for i in CORE]
        for f in firsts:
            for g in core:
                for h in core:
                    yield (key, n, [f, g, h])
        return
    if depth == 1:
        for f in firsts:
            yield (key, n, [f])
    elif depth == 2:
        for f in firsts:
            for g in alpha:
                yield (key, n, [f, g])
    else:
        for f in firsts:
            for g in alpha:
                for h in alpha:
                    yield (key, n, [f, g, h])


REPLAY = common.REPLAY_HEADER + '''
from vf import c06_ops as O, pa06
from vf.c06_ops import *
from vf.props import c06
VALUES = %(values)r
init = %(init)s
aux = dict(%(aux)s)
ops = [%(ops)s]
fac = c06.compiled_factory()
count = [0]
def make(tok):
    if tok in VALUES:
        return VALUES[tok]
    count[0] += 1
    return (1000.5 + count[0]) if tok[0] == "r" else (0 if tok[0] == "t" else 100 + count[0])
env = O.Env(make)
eq = c06.Eq(None)
bad = None
sys.stdout.flush()
child = os.fork()          # an out-of-bounds write may kill the process
if child == 0:
    try:
        r = c06.run_program((init, aux, ops), env, fac, eq)
        print("run_program ->", r)
        os._exit(0)
    except c06.Problem as p:
        print("PROBLEM: " + "; ".join(p.msgs))
        sys.stdout.flush()
        os._exit(7)
_, st = os.waitpid(child, 0)
if os.WIFSIGNALED(st):
    bad = "the process died with signal %%d while running the program" %% os.WTERMSIG(st)
elif os.WEXITSTATUS(st) == 7:
    bad = "the state differs from the record-list model (see PROBLEM line)"
elif os.WEXITSTATUS(st) != 0:
    print("replay child failed with status", os.WEXITSTATUS(st))
    sys.exit(2)
sys.exit(common.replay_exit(bad))
'''


REPLAY_OOB = common.REPLAY_HEADER + '''
# The model reported an access past a carray buffer in copy_properties.
# Tiny arrays hide it (cyarray allocates at least 16 values), so the same
# call is made on arrays large enough for the overrun to leave the heap
# block: the child dies or the allocator aborts.
common.use_repo_with_build()
import numpy as np
from pysph.base.particle_array import ParticleArray
bad = None
for n in (100, 100000):
    a = ParticleArray(name="a", x=np.zeros(n), A=dict(data=np.zeros(3*n), stride=3))
    b = ParticleArray(name="b", x=np.ones(n), A=dict(data=np.ones(3*n), stride=3))
    sys.stdout.flush()
    child = os.fork()
    if child == 0:
        a.copy_properties(b, %(start)d, %(end)d)
        os._exit(0)
    _, st = os.waitpid(child, 0)
    if os.WIFSIGNALED(st):
        bad = "copy_properties(source, %(start)d, %(end)d) on %%d particles with a stride-3 property: the process died with signal %%d" %% (n, os.WTERMSIG(st))
        break
sys.exit(common.replay_exit(bad))
'''


def _model_values(ctx, env):
    """concrete values: the path's tags from a model in which all value
    symbols are pairwise distinct (so that a mixed-up particle shows)"""
    reals = [v.t for k, v in env.vals.items() if k[0] == "r"]
    ints = [v.t for k, v in env.vals.items() if k[0] == "i"]
    extra = []
    if len(reals) > 1:
        extra.append(z3.Distinct(*reals))
    for k, t in enumerate(reals):
        extra.append(z3.And(t > 10, t < 10000, z3.IsInt(t * 2)))
    if len(ints) > 1:
        extra.append(z3.Distinct(*ints))
    for t in ints:
        extra.append(z3.And(t > 10, t < 10000))
    s = z3.Solver()
    s.set("timeout", 20000)
    for p in ctx.pc:
        s.add(p)
    for e in extra:
        s.add(e)
    if str(s.check()) != "sat":
        s = z3.Solver()
        for p in ctx.pc:
            s.add(p)
        if str(s.check()) != "sat":
            return None
    m = s.model()
    vals = {}
    for k, v in env.vals.items():
        x = symx.model_value(m, v.t)
        vals[k] = float(x) if k[0] == "r" else int(x)
    return vals


def unit_programs(key, n, depth, sl=None, deadline_s=600, max_paths=200):
    common.use_repo()
    stats = Stats()
    t0 = time.time()
    out = dict(unit="ParticleArray init=%s n=%d, %d-operation programs%s" % (
        key, n, depth, " first ops %d..%d" % tuple(sl) if sl else ""),
        obligations=0, discharged=0, undecided=[], programs=0, skipped=0)
    fac = lowered_factory()
    findings = common.load_findings(PID)
    reported = set()
    for (k_, n_, makers) in programs((key, n, depth, sl)):
        if time.time() - t0 > deadline_s:
            stats.incomplete = "deadline %ss reached after %d programs" % (
                deadline_s, out["programs"])
            break
        ops_for_repr = [mk() for mk in makers]
        state = dict(skipped=False)

        def run(ctx):
            ops = [mk() for mk in makers]
            env = O.Env(sym_make(ctx))
            eq = Eq(ctx)
            prog = (INITS[key](n), aux_inits(), ops)
            try:
                r = run_program(prog, env, fac, eq)
            except Problem as p:
                return ("bad", p, env, ops, eq)
            return ("ok", r, env, ops, eq)
        npaths = 0
        for path in explore(run, max_paths=stats.paths + max_paths,
                            stats=stats):
            npaths += 1
            if path.exc is not None:
                out.setdefault("harness_errors", []).append(
                    "program %r: %r" % (ops_for_repr, path.exc))
                break
            kind, r, env, ops, eq = path.value
            if kind == "ok" and r == "skipped":
                state["skipped"] = True
                break
            out["obligations"] += 1
            if kind == "ok":
                if r:
                    out["undecided"].append("%r: %s" % (ops, r[0]))
                else:
                    out["discharged"] += 1
                continue
            p = r
            cls = classify(ops, p)
            if cls in reported:
                continue
            reported.add(cls)
            vals = _model_values(path.ctx, env)
            if vals is None:
                out["undecided"].append("%r: no model for the path" % (ops,))
                continue
            name = "pa_%s_n%d_%s" % (key, n, "_".join(
                type(o).__name__ for o in ops[:p.step]))[:120]
            aux = aux_inits()
            script = REPLAY % dict(
                values=vals, init=repr(INITS[key](n)),
                aux=", ".join("%s=%r" % kv for kv in aux.items()),
                ops=", ".join(repr(o) for o in ops[:max(p.step, 1)]))
            last = ops[p.step - 1] if p.step else None
            if isinstance(last, O.CopyProperties) and \
                    "raised IndexError" in p.details[0]:
                script = REPLAY_OOB % dict(start=last.start, end=last.end)
            rp = common.write_replay(PID, name, script)
            common.triage(PID, out, "ParticleArray(%s, n=%d) %s" % (
                key, n, "; ".join(p.msgs)[:400]), rp,
                dict(unit="ParticleArray", cls=cls), findings)
        if state["skipped"]:
            out["skipped"] += 1
        else:
            out["programs"] += 1
    out["stats"] = stats.as_dict()
    return out


def classify(ops, p):
    """violation class: the failing operation and the kind of discrepancy"""
    op = type(ops[p.step - 1]).__name__ if p.step else "Init"
    m = p.details[0]
    for key in ("raised", "stride", "holds", "default", "constant",
                "output_property_arrays", "num_real_particles", "aligned",
                "C type", "properties", "particles, expected", "particle"):
        if key in m:
            return "%s:%s" % (op, key)
    return "%s:other" % op


def unit_vacuity():
    """reachability twins: a corrupted specification must be refuted"""
    common.use_repo()
    stats = Stats()
    out = dict(unit="vacuity twins (a wrong specification is refuted)",
               obligations=0, discharged=0, undecided=[])
    fac = lowered_factory()

    class WrongExtend(O.Extend):
        def apply(self, spec, env, aux):
            O.Extend.apply(self, spec, env, aux)
            spec.recs[-1]["x"] = (1234,)

    class WrongRemove(O.RemoveParticles):
        def apply(self, spec, env, aux):
            keep = self.indices
            self.indices = [(i + 1) % spec.n() for i in keep]
            O.RemoveParticles.apply(self, spec, env, aux)
            self.indices = keep

    for ops_maker in (lambda: [WrongExtend(1)],
                      lambda: [O.SetProp("tag", uid=2), WrongRemove([0])]):
        out["obligations"] += 1
        refuted = False

        def run(ctx):
            env = O.Env(sym_make(ctx))
            try:
                run_program((INITS["xAm"](2), aux_inits(), ops_maker()), env,
                            fac, Eq(ctx))
            except Problem:
                return True
            return False
        for path in explore(run, max_paths=100, stats=stats):
            if path.value:
                refuted = True
        if refuted:
            out["discharged"] += 1
        else:
            out.setdefault("harness_errors", []).append(
                "vacuity twin not refuted: %r" % (ops_maker(),))
    out["stats"] = stats.as_dict()
    return out


def unit_carray_conformance(rounds=300):
    """the cyarray model of vf/pa06.py against the real cyarray on concrete
    operation sequences (stub validation)"""
    common.use_repo()
    import random
    import numpy
    from cyarray import api as CA
    out = dict(unit="carray model conformance (concrete, %d sequences)" %
               rounds, obligations=0, discharged=0, undecided=[])
    rnd = random.Random(common.seed())
    kinds = [("DoubleArray", float), ("IntArray", int), ("LongArray", int),
             ("UIntArray", int), ("FloatArray", float)]
    for r in range(rounds):
        nm, ty = kinds[r % len(kinds)]
        real = getattr(CA, nm)(0)
        mod = getattr(pa06, nm)(0)
        stride = rnd.choice([1, 1, 2, 3])
        n = rnd.randint(0, 4)
        init = [ty(rnd.randint(0, 50)) for _ in range(n * stride)]
        real.resize(len(init))
        mod.resize(len(init))
        real.set_data(numpy.array(init, dtype=real.get_npy_array().dtype))
        mod.set_data(pa06.NpList(init))
        log = []
        ok = True
        for step in range(rnd.randint(1, 6)):
            np_ = len(mod.data) // stride
            op = rnd.choice(["remove", "align", "extend", "copy_values",
                             "copy_subset", "resize", "append", "set_data"])
            try:
                if op == "remove" and np_:
                    idx = sorted(rnd.sample(range(np_),
                                            rnd.randint(1, np_)))
                    real.remove(numpy.array(idx), 1, stride)
                    mod.remove(idx, 1, stride)
                elif op == "align" and np_:
                    perm = list(range(np_))
                    rnd.shuffle(perm)
                    la = CA.LongArray(np_)
                    la.set_data(numpy.array(perm))
                    lm = pa06.LongArray(np_)
                    lm.set_data(perm)
                    real.align_array(la, stride)
                    mod.align_array(lm, stride)
                elif op == "extend":
                    v = [ty(rnd.randint(0, 50)) for _ in range(stride)]
                    real.extend(numpy.array(
                        v, dtype=real.get_npy_array().dtype))
                    mod.extend(pa06.NpList(v))
                elif op == "copy_values" and np_:
                    idx = [rnd.randrange(np_) for _ in range(2)]
                    dr = getattr(CA, nm)(len(mod.data) + 2 * stride)
                    dm = getattr(pa06, nm)(len(mod.data) + 2 * stride)
                    dr.get_npy_array()[:] = 0
                    dm.get_npy_array()[:] = 0
                    la = CA.LongArray(2)
                    la.set_data(numpy.array(idx))
                    lm = pa06.LongArray(2)
                    lm.set_data(idx)
                    st0 = rnd.choice([0, stride])
                    real.copy_values(la, dr, stride, st0)
                    mod.copy_values(lm, dm, stride, st0)
                    if list(dr.get_npy_array()) != list(dm.data):
                        ok = False
                elif op == "copy_subset" and np_:
                    k = rnd.randint(1, np_)
                    sr = getattr(CA, nm)(k * stride)
                    sm = getattr(pa06, nm)(k * stride)
                    v = [ty(rnd.randint(60, 90)) for _ in range(k * stride)]
                    sr.set_data(numpy.array(
                        v, dtype=real.get_npy_array().dtype))
                    sm.set_data(pa06.NpList(v))
                    si = rnd.randint(0, np_ - k)
                    real.copy_subset(sr, si, si + k, stride)
                    mod.copy_subset(sm, si, si + k, stride)
                elif op == "resize":
                    m = rnd.randint(0, np_)
                    real.resize(m * stride)
                    mod.resize(m * stride)
                elif op == "append":
                    for _ in range(stride):
                        v = ty(rnd.randint(0, 50))
                        real.append(v)
                        mod.append(v)
                elif op == "set_data" and np_:
                    v = [ty(rnd.randint(0, 50))
                         for _ in range(len(mod.data))]
                    real.set_data(numpy.array(
                        v, dtype=real.get_npy_array().dtype))
                    mod.set_data(pa06.NpList(v))
                else:
                    continue
            except Exception as e:
                ok = False
                log.append("raised %r" % (e,))
            log.append(op)
            if real.length != mod.length or \
                    list(real.get_npy_array()) != list(mod.data):
                ok = False
            if not ok:
                break
        out["obligations"] += 1
        if ok:
            out["discharged"] += 1
        else:
            out.setdefault("harness_errors", []).append(
                "cyarray model differs from cyarray %s after %r: real %r "
                "model %r" % (nm, log, list(real.get_npy_array()),
                              mod.data))
            break
    out["stats"] = Stats().as_dict()
    return out


def main():
    t = common.tier()
    common.use_repo()
    rep = common.Report(
        PID, "other",
        "every method of ParticleArray lowered from particle_array.pyx "
        "(typed bindings kept) and executed on a model of the cyarray "
        "arrays with symbolic values and symbolic tags; programs of 1..3 "
        "public calls from enumerated initial arrays are compared, call by "
        "call, with the record-list specification; each equality is a "
        "solver claim on the path, counter-examples are replayed on the "
        "compiled class")
    rep.functions = ["pysph/base/particle_array.pyx sha=%s (all %d methods "
                     "of ParticleArray)" % (common.sha_of(os.path.join(
                         common.REPO, pa06.PYX)), 46)]
    units = [("vf.props.c06", "unit_vacuity", {}),
             ("vf.props.c06", "unit_carray_conformance",
              dict(rounds=300 if t == "quick" else 3000))]
    na = len(alphabet())
    dl = 600 if t == "quick" else 1300
    singles = [("x", 0), ("x", 1), ("x", 3), ("xAm", 0), ("xAm", 2),
               ("xAm", 3), ("types", 2), ("notags", 2)]
    for key, n in singles:
        units.append(("vf.props.c06", "unit_programs",
                      dict(key=key, n=n, depth=1, deadline_s=dl)))
    pairs = [("xAm", 2)] if t == "quick" else \
        [("xAm", 2), ("xAm", 3), ("x", 1), ("xAm", 0), ("types", 2)]
    step = 4
    for key, n in pairs:
        for a in range(0, na, step):
            units.append(("vf.props.c06", "unit_programs",
                          dict(key=key, n=n, depth=2, sl=(a, a + step),
                               deadline_s=dl)))
    if t != "quick":
        for a in range(0, na, 2):
            units.append(("vf.props.c06", "unit_programs",
                          dict(key="xAm", n=2, depth=3, sl=(a, a + 2),
                               deadline_s=dl)))
    rep.bounds = dict(
        particles="<= 3 initially (<= 5 after additions)",
        initial_arrays=sorted(INITS), operations=na,
        program_length="1 (all initial arrays), 2 (%s)%s" % (
            pairs, ", 3 (xAm n=2; 2nd and 3rd call from %d "
            "structure-changing operations)" % len(CORE)
            if t != "quick" else ""),
        values="uninterpreted reals / ints; tags symbolic in {0,1,2}",
        property_types="double, float, int, long, unsigned int; strides 1, 2")
    rep.assumptions = [
        "Cython->Python lowering (vf/cy2py.py); typed local/argument "
        "bindings keep their run-time type check, other C declarations are "
        "dropped",
        "cyarray arrays are modelled (vf/pa06.py) after carray.pyx and "
        "compared with the real cyarray on concrete sequences (unit carray "
        "model conformance); freshly allocated or resized storage holds "
        "unspecified values",
        "numpy calls used by the class (ravel, asarray, ones, sort, sum) "
        "are modelled on lists; dtype conversion of user data is outside",
        "valid arguments = the documented preconditions coded in "
        "vf/c06_ops.py (existing property names, indices in range and "
        "distinct, data of exactly the present length, re-adding a property "
        "only with its type and stride, resize followed by no claim on the "
        "new slots)"]
    rep.outside = ["device (GPU) helper paths", "more than 3 operations or "
                   "5 particles", "numpy views handed out by get()/"
                   "attribute access and written through by the caller",
                   "the pickle byte format (the __reduce__/__setstate__ "
                   "pair is executed)", "output_property_arrays across "
                   "pickling"]
    common.run_units(rep, units)
    return rep.finish()


if __name__ == "__main__":
    if len(sys.argv) > 2 and sys.argv[1] == "--replay":
        sys.exit(common.run_replay(sys.argv[2])[0])
    sys.exit(main())
