"""C12 -- every shipped scheme yields a complete, generatable simulation.

The real configure_solver / get_equations / setup_properties of each Scheme
class run with the *options as solver variables*: every boolean attribute
is an SBool, `nu` is a non-negative symbolic real, enumerated options are
enumerated.  The solver prunes and closes the option space (one symbolic
path = one class of option combinations with identical control flow).  On
each path the completeness claim is evaluated on the path's model: every
name the generated set-up code dereferences (explicit d_*/s_* arguments and
names needed through precomputed symbols) and every stepper argument exists
on the array it is applied to, and code generation succeeds."""
import sys
import re
import inspect
import importlib
import itertools

import z3

from vf import common
from vf.symx import (explore, patched_globals, Stats, model_value, SBool,
                     SReal, real, boolean, MATH_TABLE, is_sym)

PID = "C12"

# module, class, required kwargs, enumerated options {attr: [values]}
SCHEMES = [
    ("pysph.sph.scheme", "WCSPHScheme",
     dict(rho0=1.0, c0=10.0, h0=0.1, hdx=1.2), {}),
    ("pysph.sph.scheme", "TVFScheme",
     dict(rho0=1.0, c0=10.0, nu=0.01, p0=100.0, pb=100.0, h0=0.1), {}),
    ("pysph.sph.scheme", "AdamiHuAdamsScheme",
     dict(rho0=1.0, c0=10.0, nu=0.01, h0=0.1), {}),
    ("pysph.sph.scheme", "GasDScheme", dict(gamma=1.4, kernel_factor=1.2),
     dict(adaptive_h_scheme=["mpm", "gsph"])),
    ("pysph.sph.scheme", "GSPHScheme", dict(gamma=1.4, kernel_factor=1.2),
     {}),
    ("pysph.sph.scheme", "ADKEScheme", dict(), {}),
    ("pysph.sph.wc.edac", "EDACScheme", dict(c0=10.0, nu=0.01, rho0=1.0),
     {}),
    ("pysph.sph.wc.gtvf", "GTVFScheme",
     dict(rho0=1.0, c0=10.0, nu=0.01, h0=0.1, pref=100.0), {}),
    ("pysph.sph.wc.crksph", "CRKSPHScheme",
     dict(rho0=1.0, c0=10.0, nu=0.01, h0=0.1, p0=100.0), {}),
    ("pysph.sph.wc.pcisph", "PCISPHScheme", dict(rho0=1.0, nu=0.01), {}),
    ("pysph.sph.iisph", "IISPHScheme", dict(rho0=1.0), {}),
    ("pysph.sph.isph.isph", "ISPHScheme",
     dict(nu=0.01, rho0=1.0, c0=10.0, alpha=0.1), {}),
    ("pysph.sph.isph.sisph", "SISPHScheme",
     dict(nu=0.01, rho0=1.0, c0=10.0, pref=100.0), {}),
    # ElasticSolidsScheme provides no setup_properties: outside the statement
    ("pysph.sph.gas_dynamics.magma2", "MAGMA2Scheme",
     dict(gamma=1.4, hfact=1.2, ndes=30),
     dict(adaptive_h_scheme=["magma2", "mpm"],
          formulation=["mi1", "mi2", "stdgrad"],
          reconstruction_order=[0, 1, 2])),
    ("pysph.sph.gas_dynamics.tsph", "TSPHScheme",
     dict(gamma=1.4, hfact=1.2), {}),
    ("pysph.sph.gas_dynamics.psph", "PSPHScheme",
     dict(gamma=1.4, hfact=1.2), {}),
]


def make_scheme(mod, cls, kw, dim, with_solids):
    C = getattr(importlib.import_module(mod), cls)
    sig = inspect.signature(C.__init__).parameters
    args = dict(kw or {})
    if "fluids" in sig:
        args["fluids"] = ["fluid"]
    if "elastic_solids" in sig:
        args["elastic_solids"] = ["fluid"]
    if "solids" in sig:
        args["solids"] = ["solid"] if with_solids else []
    elif with_solids:
        return None, None
    args["dim"] = dim
    if kw is None:           # MAGMA2: look at its signature
        for n, p in list(sig.items())[1:]:
            if p.default is inspect._empty and n not in args:
                args[n] = 1.4 if n == "gamma" else 1.2
    s = C(**args)
    names = ["fluid"] + (["solid"] if with_solids and "solids" in sig else [])
    return s, names


def symbolise(s):
    """bool attributes -> SBool, nu -> symbolic real >= 0"""
    opts = {}
    for k, v in list(s.__dict__.items()):
        if isinstance(v, bool):
            b = boolean("opt_" + k)
            setattr(s, k, b)
            opts[k] = b
    if isinstance(getattr(s, "nu", None), float):
        r = real("opt_nu")
        s.nu = r
        opts["nu"] = r
    return opts


def concrete_options(opts, model):
    out = {}
    for k, v in opts.items():
        if isinstance(v, SBool):
            out[k] = bool(model_value(model, v.t))
        else:
            out[k] = float(model_value(model, v.t))
    return out


def _names(text, what):
    return set(re.findall(r"%s\.(\w+)\.data" % what, text))


class _NoEval(object):
    """stand-in for SPHEvaluator inside setup_properties"""

    def __init__(self, *a, **k):
        pass

    def evaluate(self, *a, **k):
        pass

    def update(self, *a, **k):
        pass


def no_compile():
    """Schemes that evaluate something during setup_properties (SISPH
    computes wall normals with an SPHEvaluator) would compile and run C
    code: the evaluator is replaced by a no-op; array names are unaffected."""
    import pysph.tools.sph_evaluator as SE
    SE.SPHEvaluator = _NoEval


def completeness(s, names, clean, codegen):
    """Concrete evaluation of the claim for a fully concrete scheme `s`.
    Returns a list of problems (empty = holds)."""
    no_compile()
    from pysph.base.utils import get_particle_array
    from pysph.sph.acceleration_eval import make_acceleration_evals
    from pysph.sph.acceleration_eval_cython_helper import \
        AccelerationEvalCythonHelper as H
    from pysph.sph.equation import get_array_names
    from pysph.base.kernels import CubicSpline
    problems = []
    arrays = [get_particle_array(name=n, x=[0.0, 0.1], h=0.1, m=1.0)
              for n in names]
    if not clean:
        for a in arrays:
            a.add_property("user_extra")
    s.configure_solver(dt=1e-3, tf=1e-2)
    s.setup_properties(arrays, clean=clean)
    eqs = s.get_equations()
    byname = dict((a.name, a) for a in arrays)

    def has(an, n):
        a = byname[an]
        return n in a.properties or n in a.constants
    try:
        aevals = make_acceleration_evals(arrays, eqs, CubicSpline(dim=s.dim),
                                         backend="cython")
    except RuntimeError as e:
        return ["equations rejected: %s" % str(e).strip()[:300]]
    for ae in aevals:
        for mg in ae.mega_groups:
            groups = [mg] if not mg.has_subgroups else list(mg.data)
            todo = []
            if mg.has_subgroups:
                for sub in mg.data:
                    todo.append(sub)
            else:
                todo.append(mg)
            for g in todo:
                for dest, (nosrc, sources, alleqs) in g.data.items():
                    txt = H.get_dest_array_setup(None, dest, nosrc, sources,
                                                 g)
                    for n in _names(txt, "dst"):
                        if not has(dest, n):
                            problems.append(
                                "destination %s lacks %s (needed by %s)" %
                                (dest, n, [e.name for e in alleqs.equations]))
                    for sname, sg in sources.items():
                        txt = H.get_src_array_setup(None, sname, sg)
                        for n in _names(txt, "src"):
                            if not has(sname, n):
                                problems.append(
                                    "source %s lacks %s (needed by %s)" %
                                    (sname, n,
                                     [e.name for e in sg.equations]))
    integ = s.solver.integrator
    for dest, stepper in integ.steppers.items():
        if dest not in byname:
            problems.append("stepper for unknown array %s" % dest)
            continue
        for meth in dir(stepper):
            if re.match(r"^(initialize|stage\d+)$", meth):
                a = inspect.getfullargspec(getattr(stepper, meth)).args
                ss, dd = get_array_names(a)
                for n in ss | dd:
                    if not has(dest, n[2:]):
                        problems.append("stepper %s.%s needs %s on %s" % (
                            type(stepper).__name__, meth, n[2:], dest))
    if codegen and not problems:
        from pysph.sph.sph_compiler import SPHCompiler
        try:
            comp = SPHCompiler(aevals, integ)
            code = comp._get_code()
            if len(code) < 100:
                problems.append("code generation produced no code")
        except Exception as e:
            problems.append("code generation failed: %r" % (e,))
    return sorted(set(problems))


REPLAY = common.REPLAY_HEADER + '''
common.use_repo_with_build()
import io, contextlib
from vf.props.c12 import make_scheme, completeness
mod, cls, kw, dim, solids, enum, opts, clean = %(mod)r, %(cls)r, %(kw)r, %(dim)d, %(solids)r, %(enum)r, %(opts)r, %(clean)r
s, names = make_scheme(mod, cls, kw, dim, solids)
for k, v in list(enum.items()) + list(opts.items()):
    setattr(s, k, v)
buf = io.StringIO()
with contextlib.redirect_stdout(buf):
    probs = completeness(s, names, clean, True)
print("options:", enum, opts)
for p in probs:
    print("PROBLEM:", p)
sys.exit(common.replay_exit("; ".join(probs)[:400] if probs else None))
'''


def unit_scheme(idx, dim, with_solids, clean, codegen_paths=1):
    common.use_repo_with_build()
    mod, cls, kw, enum = SCHEMES[idx]
    stats = Stats()
    out = dict(unit="%s dim=%d solids=%s clean=%s" % (cls, dim, with_solids,
                                                      clean),
               obligations=0, discharged=0, undecided=[], option_classes=0,
               options=[])
    findings = common.load_findings(PID)
    module = importlib.import_module(mod)
    ncex = [0]
    enum_items = sorted(enum.items())
    combos = list(itertools.product(*[v for _, v in enum_items])) or [()]
    for combo in combos:
        evals = dict(zip([k for k, _ in enum_items], combo))
        try:
            s0, names = make_scheme(mod, cls, kw, dim, with_solids)
        except Exception as e:
            out["skipped"] = "not constructible for dim=%d: %r" % (dim, e)
            break
        if s0 is None:
            out["skipped"] = "scheme takes no solids"
            break

        def run(c, evals=evals):
            import io
            import contextlib
            no_compile()
            s, names_ = make_scheme(mod, cls, kw, dim, with_solids)
            for k, v in evals.items():
                setattr(s, k, v)
            opts = symbolise(s)
            if "nu" in opts:
                c.assume_unchecked(opts["nu"].t >= 0)
            from pysph.base.utils import get_particle_array
            arrays = [get_particle_array(name=n, x=[0.0, 0.1], h=0.1, m=1.0)
                      for n in names_]
            with contextlib.redirect_stdout(io.StringIO()):
                s.configure_solver(dt=1e-3, tf=1e-2)
                s.setup_properties(arrays, clean=clean)
                s.get_equations()
            return opts

        table = dict(abs=MATH_TABLE["abs"], max=MATH_TABLE["max"],
                     min=MATH_TABLE["min"])
        with patched_globals(module, table):
            paths = list(_explore_opts(run, stats))
        for path in paths:
            if isinstance(path.exc, ValueError) and \
                    "not supported" in str(path.exc):
                # the scheme's default kernel rejects this dimension: not a
                # shipped configuration
                out["skipped"] = "%s in %d-D: %s" % (cls, dim, path.exc)
                continue
            if path.exc is not None:
                out.setdefault("harness_errors", []).append(
                    "%s with symbolic options raised %r" % (cls, path.exc))
                continue
            c = path.ctx
            if c.reachable() != "sat":
                out["undecided"].append("path model")
                continue
            model = c.last_model_solver.model()
            opts = concrete_options(path.value, model)
            out["option_classes"] += 1
            if len(out["options"]) < 6:
                out["options"].append(dict(evals, **opts))
            s, names_ = make_scheme(mod, cls, kw, dim, with_solids)
            for k, v in list(evals.items()) + list(opts.items()):
                setattr(s, k, v)
            import io
            import contextlib
            out["obligations"] += 1
            try:
                with contextlib.redirect_stdout(io.StringIO()):
                    probs = completeness(
                        s, names_, clean,
                        codegen=out["option_classes"] <= codegen_paths)
            except Exception as e:
                probs = ["set-up raised %r" % (e,)]
            if not probs:
                out["discharged"] += 1
                continue
            ncex[0] += 1
            p = common.write_replay(
                PID, "%s_d%d_s%d_c%d_%d" % (cls, dim, with_solids, clean,
                                            ncex[0]),
                REPLAY % dict(mod=mod, cls=cls, kw=kw, dim=dim,
                              solids=with_solids, enum=evals, opts=opts,
                              clean=clean))
            first = probs[0]
            common.triage(PID, out, "%s %s %s: %s" % (cls, evals, opts,
                                                      first[:200]), p,
                          dict(unit=cls, problem=_classify(first)), findings)
    out["stats"] = stats.as_dict()
    out["sample"] = dict(unit=out["unit"], option_classes=out["option_classes"],
                         examples=out["options"][:3])
    return out


def _classify(p):
    m = re.match(r"(destination|source) (\w+) lacks (\w+)", p)
    if m:
        return "%s lacks %s" % (m.group(2), m.group(3))
    m = re.match(r"stepper (\S+) needs (\w+) on (\w+)", p)
    if m:
        return "stepper %s needs %s" % (m.group(1), m.group(2))
    return p.split(":")[0][:40]


def _explore_opts(run, stats):
    for path in explore(run, stats=stats, max_paths=600):
        yield path


def main():
    t = common.tier()
    common.use_repo_with_build()
    rep = common.Report(
        PID, "other",
        "symbolic execution of the real Scheme.configure_solver / "
        "setup_properties / get_equations with the boolean options as z3 "
        "Bools (nu a symbolic real): the solver enumerates and closes the "
        "option space; on each path's model the completeness claim and code "
        "generation are evaluated")
    for mod, cls, kw, enum in SCHEMES:
        C = getattr(importlib.import_module(mod), cls)
        rep.functions.append(common.func_ref(C.get_equations))
        rep.functions.append(common.func_ref(C.setup_properties))
    units = []
    for i, (mod, cls, kw, enum) in enumerate(SCHEMES):
        dims = (2, 3) if t == "quick" else (1, 2, 3)
        for dim in dims:
            for solids in (False, True):
                for clean in (True, False):
                    units.append(("vf.props.c12", "unit_scheme",
                                  dict(idx=i, dim=dim, with_solids=solids,
                                       clean=clean,
                                       codegen_paths=1000)))
    rep.bounds = dict(schemes=[s[1] for s in SCHEMES],
                      dims="2,3 (quick) / 1,2,3 (thorough)",
                      arrays="one fluid (+ one solid)",
                      code_generation="every option class")
    rep.assumptions = [
        "constructor arguments other than the options are fixed plausible "
        "values; option = every bool attribute of the scheme object, nu, and "
        "the enumerated string options listed in SCHEMES",
        "one symbolic path = one class of option combinations with the same "
        "control flow in configure_solver/setup_properties/get_equations; "
        "the claim is evaluated on the path's model",
        "dereferenced names come from the real get_dest_array_setup / "
        "get_src_array_setup",
        "SPHEvaluator is replaced by a no-op inside setup_properties (SISPH "
        "computes wall normals there)"]
    rep.outside = ["C compilation of the generated module and 'a short run "
                   "leaves all properties finite' (needs execution of "
                   "compiled code)", "options given through user command "
                   "line parsing"]
    common.run_units(rep, units)
    return rep.finish()


if __name__ == "__main__":
    sys.exit(main())
