"""symx -- path-exhaustive symbolic execution of real Python code over z3.

The real function objects of /repo are *called* with proxy arguments
(SReal/SInt/SBool).  Whenever the interpreter needs a concrete truth value
the proxy asks the path manager, which enumerates decision sequences
depth-first (DART style), keeping a branch only if z3 finds it feasible and
re-executing the function once per path.  See DESIGN.md section 1.1.

Nothing here knows about pysph.
"""
import time
import math
import itertools
from fractions import Fraction

import z3

# ---------------------------------------------------------------------------
# exceptions used for path steering: BaseException so that `except Exception`
# in code under test never swallows them.


class PathAbort(BaseException):
    pass


class Infeasible(PathAbort):
    """current path condition is unsatisfiable (assumption failed)"""


class BoundExceeded(PathAbort):
    """an unwinding/size bound was hit on a feasible path"""


class NotEncodable(Exception):
    """code under test did something the engine cannot model"""


# ---------------------------------------------------------------------------
_CTX = None


def ctx():
    if _CTX is None:
        raise NotEncodable("symbolic value used outside an exploration")
    return _CTX


def _frac(v):
    if isinstance(v, bool):
        return Fraction(int(v))
    if isinstance(v, int):
        return Fraction(v)
    if isinstance(v, float):
        if math.isinf(v) or math.isnan(v):
            raise NotEncodable("non-finite float literal %r" % v)
        return Fraction(v)
    if isinstance(v, Fraction):
        return v
    raise TypeError(v)


def rv(fr):
    fr = Fraction(fr)
    return z3.RealVal(str(fr.numerator) + "/" + str(fr.denominator)) \
        if fr.denominator != 1 else z3.RealVal(fr.numerator)


def to_real(x):
    """z3 Real term of a python number / proxy"""
    if isinstance(x, SReal):
        return x.t
    if isinstance(x, SInt):
        return z3.ToReal(x.t)
    if isinstance(x, SBool):
        return z3.If(x.t, z3.RealVal(1), z3.RealVal(0))
    if isinstance(x, (bool, int, float, Fraction)):
        return rv(_frac(x))
    try:
        import numpy
        if isinstance(x, numpy.generic):
            return rv(_frac(x.item()))
    except ImportError:
        pass
    raise NotEncodable("cannot make a real from %r" % (type(x),))


def to_int(x):
    if isinstance(x, SInt):
        return x.t
    if isinstance(x, SBool):
        return z3.If(x.t, z3.IntVal(1), z3.IntVal(0))
    if isinstance(x, bool):
        return z3.IntVal(int(x))
    if isinstance(x, int):
        return z3.IntVal(x)
    try:
        import numpy
        if isinstance(x, numpy.integer):
            return z3.IntVal(int(x))
    except ImportError:
        pass
    raise NotEncodable("cannot make an int from %r" % (type(x),))


def to_bool(x):
    if isinstance(x, SBool):
        return x.t
    if isinstance(x, bool):
        return z3.BoolVal(x)
    if isinstance(x, (SReal, SInt)):
        return x != 0
    if isinstance(x, (int, float)):
        return z3.BoolVal(bool(x))
    if z3.is_bool(x):
        return x
    raise NotEncodable("cannot make a bool from %r" % (type(x),))


def is_sym(x):
    return isinstance(x, (SReal, SInt, SBool))


def _is_intlike(x):
    if isinstance(x, (SInt, bool, int)):
        return True
    try:
        import numpy
        return isinstance(x, numpy.integer)
    except ImportError:
        return False


def simp(t):
    return z3.simplify(t)


# ---------------------------------------------------------------------------
class SBool(object):
    __slots__ = ("t",)

    def __init__(self, t):
        self.t = t

    def __bool__(self):
        if z3.is_true(self.t):
            return True
        if z3.is_false(self.t):
            return False
        return ctx().branch(self.t)

    def __and__(self, o):
        return SBool(z3.And(self.t, to_bool(o)))
    __rand__ = __and__

    def __or__(self, o):
        return SBool(z3.Or(self.t, to_bool(o)))
    __ror__ = __or__

    def __invert__(self):
        return SBool(z3.Not(self.t))

    def __eq__(self, o):
        return SBool(self.t == to_bool(o))

    def __ne__(self, o):
        return SBool(self.t != to_bool(o))
    __hash__ = object.__hash__

    # arithmetic use of a bool (True + 1)
    def _num(self):
        return SInt(z3.If(self.t, z3.IntVal(1), z3.IntVal(0)))

    def __add__(self, o):
        return self._num() + o
    __radd__ = __add__

    def __mul__(self, o):
        return self._num() * o
    __rmul__ = __mul__

    def __repr__(self):
        return "SBool(%s)" % (self.t,)


class _Num(object):
    __slots__ = ("t",)
    __hash__ = object.__hash__

    def __bool__(self):
        return bool(self != 0)

    def __repr__(self):
        return "%s(%s)" % (type(self).__name__, self.t)


def _cmp(op):
    def f(self, o):
        if isinstance(o, float) and math.isinf(o):
            # finite symbolic value against +-inf
            return bool(op(0.0, o))
        if isinstance(self, SInt) and _is_intlike(o):
            a, b = self.t, to_int(o)
        else:
            try:
                a, b = to_real(self), to_real(o)
            except NotEncodable:
                return NotImplemented
        return SBool(simp(op(a, b)))
    return f


def _divide(a, b):
    """real division with an explicit divisor==0 fork"""
    bt = to_real(b)
    if z3.is_rational_value(bt):
        if bt.numerator_as_long() == 0:
            raise ZeroDivisionError("float division by zero")
    else:
        c = ctx()
        if getattr(c, "nonzero_div", False):
            # divisors are assumed non-zero (stated by the check that sets
            # this): no fork, the exceptional path is outside the claim
            c.add(bt != 0)
        elif c.branch(bt == 0):
            raise ZeroDivisionError("float division by zero (symbolic)")
    return SReal(simp(to_real(a) / bt))


class SReal(_Num):
    """Python float modelled as a mathematical real."""
    __slots__ = ()

    def __init__(self, t):
        self.t = t

    def __add__(self, o):
        try:
            return SReal(simp(self.t + to_real(o)))
        except NotEncodable:
            return NotImplemented
    __radd__ = __add__

    def __sub__(self, o):
        try:
            return SReal(simp(self.t - to_real(o)))
        except NotEncodable:
            return NotImplemented

    def __rsub__(self, o):
        try:
            return SReal(simp(to_real(o) - self.t))
        except NotEncodable:
            return NotImplemented

    def __mul__(self, o):
        try:
            return SReal(simp(self.t * to_real(o)))
        except NotEncodable:
            return NotImplemented
    __rmul__ = __mul__

    def __truediv__(self, o):
        try:
            to_real(o)
        except NotEncodable:
            return NotImplemented
        return _divide(self, o)

    def __rtruediv__(self, o):
        try:
            to_real(o)
        except NotEncodable:
            return NotImplemented
        return _divide(o, self)

    def __neg__(self):
        return SReal(simp(-self.t))

    def __pos__(self):
        return self

    def __abs__(self):
        return sym_abs(self)

    def __pow__(self, o):
        return sym_pow(self, o)

    def __rpow__(self, o):
        return sym_pow(o, self)

    __lt__ = _cmp(lambda a, b: a < b)
    __le__ = _cmp(lambda a, b: a <= b)
    __gt__ = _cmp(lambda a, b: a > b)
    __ge__ = _cmp(lambda a, b: a >= b)
    __eq__ = _cmp(lambda a, b: a == b)
    __ne__ = _cmp(lambda a, b: a != b)
    __hash__ = object.__hash__


class SInt(_Num):
    """Python int as a z3 Int."""
    __slots__ = ()

    def __init__(self, t):
        self.t = t

    def _bin(self, o, iop, rop, swap=False):
        if _is_intlike(o):
            a, b = self.t, to_int(o)
            if swap:
                a, b = b, a
            return SInt(simp(iop(a, b)))
        try:
            a, b = to_real(self), to_real(o)
        except NotEncodable:
            return NotImplemented
        if swap:
            a, b = b, a
        return SReal(simp(rop(a, b)))

    def __add__(self, o):
        return self._bin(o, lambda a, b: a + b, lambda a, b: a + b)
    __radd__ = __add__

    def __sub__(self, o):
        return self._bin(o, lambda a, b: a - b, lambda a, b: a - b)

    def __rsub__(self, o):
        return self._bin(o, lambda a, b: a - b, lambda a, b: a - b, True)

    def __mul__(self, o):
        return self._bin(o, lambda a, b: a * b, lambda a, b: a * b)
    __rmul__ = __mul__

    def __truediv__(self, o):
        try:
            to_real(o)
        except NotEncodable:
            return NotImplemented
        return _divide(self, o)

    def __rtruediv__(self, o):
        try:
            to_real(o)
        except NotEncodable:
            return NotImplemented
        return _divide(o, self)

    def _fd(self, o, swap, mod):
        if not _is_intlike(o):
            if mod:
                return NotImplemented
            a, b = (o, self) if swap else (self, o)
            return sym_floor(_divide(a, b)) * 1.0
        a, b = self.t, to_int(o)
        if swap:
            a, b = b, a
        if z3.is_int_value(b):
            if b.as_long() == 0:
                raise ZeroDivisionError("integer division by zero")
        elif ctx().branch(b == 0):
            raise ZeroDivisionError("integer division by zero (symbolic)")
        # python: floor division, remainder has the sign of the divisor
        # z3: a == b*(a div b) + (a mod b), 0 <= a mod b < |b|
        zq, zr = a / b, a % b
        pq = z3.If(z3.Or(b > 0, zr == 0), zq, zq - 1)
        # b<0: z3 has a = b*zq + zr, zr >= 0; python wants remainder <= 0:
        # a = b*(zq-1) + (zr+b)
        pr = z3.If(z3.Or(b > 0, zr == 0), zr, zr + b)
        return SInt(simp(pr if mod else pq))

    def __floordiv__(self, o):
        return self._fd(o, False, False)

    def __rfloordiv__(self, o):
        return self._fd(o, True, False)

    def __mod__(self, o):
        return self._fd(o, False, True)

    def __rmod__(self, o):
        return self._fd(o, True, True)

    def __neg__(self):
        return SInt(simp(-self.t))

    def __pos__(self):
        return self

    def __abs__(self):
        return SInt(simp(z3.If(self.t >= 0, self.t, -self.t)))

    def __pow__(self, o):
        if isinstance(o, int) and not isinstance(o, bool) and o >= 0:
            r = z3.IntVal(1)
            for _ in range(o):
                r = r * self.t
            return SInt(simp(r))
        return sym_pow(self, o)

    def __rpow__(self, o):
        return sym_pow(o, self)

    def __index__(self):
        return ctx().concretize(self.t)

    __lt__ = _cmp(lambda a, b: a < b)
    __le__ = _cmp(lambda a, b: a <= b)
    __gt__ = _cmp(lambda a, b: a > b)
    __ge__ = _cmp(lambda a, b: a >= b)
    __eq__ = _cmp(lambda a, b: a == b)
    __ne__ = _cmp(lambda a, b: a != b)
    __hash__ = object.__hash__


# ---------------------------------------------------------------------------
# math table (injected into the globals of the module under test)

def sym_abs(x):
    if isinstance(x, SReal):
        if _CTX is not None and _CTX.fork_minmax:
            return x if x >= 0 else -x
        return SReal(simp(z3.If(x.t >= 0, x.t, -x.t)))
    if isinstance(x, SInt):
        return x.__abs__()
    if isinstance(x, SBool):
        return x._num()
    return abs(x)


def sym_fabs(x):
    if is_sym(x):
        return sym_abs(x if isinstance(x, SReal) else SReal(to_real(x)))
    return math.fabs(x)


def _minmax(args, ismax):
    if len(args) == 1:
        args = list(args[0])
    if not any(is_sym(a) for a in args):
        return (max if ismax else min)(args)
    # concrete infinities against finite symbolic values
    absorbing = float("inf") if ismax else float("-inf")
    neutral = -absorbing
    if any(isinstance(a, float) and a == absorbing for a in args):
        return absorbing
    args = [a for a in args if not (isinstance(a, float) and a == neutral)]
    res = args[0]
    for a in args[1:]:
        if not is_sym(a) and not is_sym(res):
            res = (max if ismax else min)(res, a)
            continue
        if ctx().fork_minmax:
            # python semantics: max(a,b) returns b only if b > a
            take = (a > res) if ismax else (a < res)
            if take:
                res = a
            continue
        if _is_intlike(a) and _is_intlike(res):
            ta, tr = to_int(a), to_int(res)
            c = (ta > tr) if ismax else (ta < tr)
            res = SInt(simp(z3.If(c, ta, tr)))
        else:
            ta, tr = to_real(a), to_real(res)
            c = (ta > tr) if ismax else (ta < tr)
            res = SReal(simp(z3.If(c, ta, tr)))
    return res


def sym_max(*args):
    return _minmax(args, True)


def sym_min(*args):
    return _minmax(args, False)


def sym_float(x=0.0):
    if isinstance(x, SReal):
        return x
    if isinstance(x, (SInt, SBool)):
        return SReal(to_real(x))
    return float(x)


def sym_int(x=0):
    """C/Python int(): truncation toward zero"""
    if isinstance(x, SInt):
        return x
    if isinstance(x, SBool):
        return x._num()
    if isinstance(x, SReal):
        f = z3.ToInt(x.t)           # floor
        return SInt(simp(z3.If(z3.Or(x.t >= 0, z3.ToReal(f) == x.t), f,
                               f + 1)))
    return int(x)


def sym_floor(x):
    if isinstance(x, SReal):
        return SInt(simp(z3.ToInt(x.t)))
    if isinstance(x, SInt):
        return x
    return math.floor(x)


def sym_ceil(x):
    if isinstance(x, SReal):
        f = z3.ToInt(x.t)
        return SInt(simp(z3.If(z3.ToReal(f) == x.t, f, f + 1)))
    if isinstance(x, SInt):
        return x
    return math.ceil(x)


def sym_sqrt(x):
    if not is_sym(x):
        return math.sqrt(x)
    return ctx().sqrt(to_real(x))


_UF = {}


def uf(name, arity, sort=None):
    key = (name, arity)
    if key not in _UF:
        s = z3.RealSort()
        _UF[key] = z3.Function(name, *([s] * arity + [s]))
    return _UF[key]


def sym_exp(x):
    if not is_sym(x):
        return math.exp(x)
    return ctx().exp(to_real(x))


def sym_log(x):
    if not is_sym(x):
        return math.log(x)
    t = to_real(x)
    if ctx().branch(t <= 0):
        raise ValueError("math domain error (symbolic log)")
    return SReal(uf("log", 1)(t))


def _ufun(name):
    def f(*args):
        if not any(is_sym(a) for a in args):
            return getattr(math, name)(*args)
        return SReal(uf(name, len(args))(*[to_real(a) for a in args]))
    f.__name__ = "sym_" + name
    return f


sym_sin = _ufun("sin")
sym_cos = _ufun("cos")
sym_tan = _ufun("tan")
sym_atan2 = _ufun("atan2")
sym_atan = _ufun("atan")
sym_acos = _ufun("acos")
sym_asin = _ufun("asin")
sym_tanh = _ufun("tanh")
sym_erf = _ufun("erf")


def sym_pow(a, b):
    if not is_sym(a) and not is_sym(b):
        return a ** b
    # integer exponent
    if isinstance(b, float) and b == int(b) and abs(b) <= 16:
        b = int(b)
    if isinstance(b, int) and not isinstance(b, bool) and abs(b) <= 16:
        base = a
        if isinstance(base, SInt) and b >= 0:
            return base.__pow__(b)
        bt = to_real(base)
        r = z3.RealVal(1)
        for _ in range(abs(b)):
            r = r * bt
        r = SReal(simp(r))
        if b < 0:
            return _divide(1.0, r)
        return r
    if isinstance(b, float) and b == 0.5:
        return sym_sqrt(a)
    return ctx().pow(to_real(a), to_real(b))


def sym_declare(type, num=1):
    """compyle.api.declare for symbolic runs: plain python containers (numpy
    float arrays cannot hold proxies)."""
    def one():
        t = type.strip()
        if t.startswith("matrix"):
            import ast as _ast
            shape = _ast.literal_eval(t[6:].strip())
            if isinstance(shape, int):
                shape = (shape,)
            shape = tuple(shape)
            if len(shape) == 1:
                return [0.0] * shape[0]
            if len(shape) == 2:
                return [[0.0] * shape[1] for _ in range(shape[0])]
            raise NotEncodable("declare(%r)" % type)
        if t in ("int", "long", "unsigned int", "size_t", "uint"):
            return 0
        return 0.0
    if num == 1:
        return one()
    return tuple(one() for _ in range(num))


MATH_TABLE = dict(
    sqrt=sym_sqrt, exp=sym_exp, log=sym_log, pow=sym_pow, fabs=sym_fabs,
    sin=sym_sin, cos=sym_cos, tan=sym_tan, atan2=sym_atan2, atan=sym_atan,
    acos=sym_acos, asin=sym_asin, tanh=sym_tanh, floor=sym_floor,
    ceil=sym_ceil, erf=sym_erf,
    abs=sym_abs, max=sym_max, min=sym_min, float=sym_float, int=sym_int,
    declare=sym_declare,
)


class patched_globals(object):
    """Shadow names in the globals of modules under test for the duration
    of a `with` block (no source edit)."""

    def __init__(self, modules, table=None, extra=None):
        self.modules = modules if isinstance(modules, (list, tuple)) \
            else [modules]
        self.table = dict(MATH_TABLE if table is None else table)
        if extra:
            self.table.update(extra)
        self.saved = []

    def __enter__(self):
        for m in self.modules:
            d = m if isinstance(m, dict) else m.__dict__
            for k, v in self.table.items():
                self.saved.append((d, k, d.get(k, _MISSING)))
                d[k] = v
        return self

    def __exit__(self, *a):
        for d, k, old in reversed(self.saved):
            if old is _MISSING:
                d.pop(k, None)
            else:
                d[k] = old
        self.saved = []
        return False


_MISSING = object()


# ---------------------------------------------------------------------------
class Stats(object):
    def __init__(self):
        self.paths = 0
        self.infeasible = 0
        self.bound_exceeded = 0
        self.feas_checks = 0
        self.feas_unknown = 0
        self.queries = dict(unsat=0, sat=0, unknown=0)
        self.solver_s = 0.0
        self.incomplete = None     # reason string if exploration was cut

    def as_dict(self):
        return dict(paths=self.paths, infeasible_paths=self.infeasible,
                    bound_exceeded=self.bound_exceeded,
                    feasibility_checks=self.feas_checks,
                    feasibility_unknown=self.feas_unknown,
                    queries=dict(self.queries),
                    solver_s=round(self.solver_s, 3),
                    incomplete=self.incomplete)

    def merge(self, d):
        self.paths += d["paths"]
        self.infeasible += d["infeasible_paths"]
        self.bound_exceeded += d["bound_exceeded"]
        self.feas_checks += d["feasibility_checks"]
        self.feas_unknown += d["feasibility_unknown"]
        for k in self.queries:
            self.queries[k] += d["queries"][k]
        self.solver_s += d["solver_s"]
        if d.get("incomplete") and not self.incomplete:
            self.incomplete = d["incomplete"]


class Ctx(object):
    """One path."""

    def __init__(self, prefix, stats, feas_timeout_ms=10000, fork_minmax=False,
                 logic=None, incr_timeout_ms=500, formal_cache=False,
                 nonzero_div=False):
        self.prefix = prefix
        self.stats = stats
        self.decisions = []
        self.alternatives = []
        self.pc = []
        self.solver = z3.SolverFor(logic) if logic else z3.Solver()
        self.feas_timeout_ms = feas_timeout_ms
        self.incr_timeout_ms = incr_timeout_ms
        self.last_model_solver = None
        self.fork_minmax = fork_minmax
        self.fresh = itertools.count()
        self.sqrt_memo = {}
        self.exp_memo = {}
        self.pow_memo = {}
        self.axioms = []
        self.notes = []
        self.root_candidates = []
        self.root_defs = []
        self.formal_cache = formal_cache
        self.nonzero_div = nonzero_div
        self.sign_cache = []      # (difference term, allowed signs)
        self.roots_used = 0
        self.formal = 0

    # -- solver helpers ----------------------------------------------------
    def _check(self, *extra, timeout_ms=None):
        """incremental solver first (cheap on linear constraints); its
        `unknown` is retried on a fresh solver, where z3 picks its tactic
        portfolio (nlsat for non-linear reals) instead of the incremental
        core."""
        tmo = int(timeout_ms or self.feas_timeout_ms)
        t0 = time.time()
        try:
            self.solver.set("timeout", min(tmo, self.incr_timeout_ms))
            r = str(self.solver.check(*extra))
            self.last_model_solver = self.solver
            if r == "unknown":
                s = z3.Solver()
                s.set("timeout", tmo)
                for p in self.pc:
                    s.add(p)
                for e in extra:
                    s.add(e)
                r = str(s.check())
                self.last_model_solver = s
            return r
        finally:
            self.stats.solver_s += time.time() - t0

    def add(self, term):
        self.pc.append(term)
        self.solver.add(term)

    def assume(self, cond):
        """assert a precondition; aborts the path if it is infeasible"""
        t = to_bool(cond)
        if z3.is_true(t):
            return
        self.add(t)
        self.stats.feas_checks += 1
        r = self._check()
        if r == "unsat":
            raise Infeasible()
        if r == "unknown":
            self.stats.feas_unknown += 1

    def assume_unchecked(self, cond):
        self.add(to_bool(cond))

    def branch(self, cond):
        cond = simp(cond)
        if z3.is_true(cond):
            return True
        if z3.is_false(cond):
            return False
        i = len(self.decisions)
        if i < len(self.prefix):
            d = self.prefix[i]
            v = d[-1]
            self.decisions.append(d)
            self.add(cond if v else z3.Not(cond))
            if self.formal_cache:
                self._remember(cond, v)
            return v
        forced = self._formal_decide(cond) if self.formal_cache else None
        if forced is not None:
            v = forced
            self.formal += 1
        else:
            self.stats.feas_checks += 1
            rt = self._check(cond)
            if rt == "unsat":
                v = False
            else:
                if rt == "unknown":
                    self.stats.feas_unknown += 1
                self.stats.feas_checks += 1
                rf = self._check(z3.Not(cond))
                if rf == "unknown":
                    self.stats.feas_unknown += 1
                if rf != "unsat":
                    self.alternatives.append(
                        tuple(self.decisions) + (("b", False),))
                v = True
        self.decisions.append(("b", v))
        self.add(cond if v else z3.Not(cond))
        if self.formal_cache:
            self._remember(cond, v)
        return v

    # -- formal decision cache ---------------------------------------------
    _SIGNS = {z3.Z3_OP_LT: "-", z3.Z3_OP_LE: "-0", z3.Z3_OP_GT: "+",
              z3.Z3_OP_GE: "0+", z3.Z3_OP_EQ: "0", z3.Z3_OP_DISTINCT: "-+"}

    def _atom(self, cond):
        """(difference term d, set of signs of d for which cond holds) for
        an arithmetic comparison, else None"""
        neg = False
        c = cond
        while z3.is_not(c):
            neg = not neg
            c = c.children()[0]
        k = c.decl().kind()
        ch = c.children()
        if k not in self._SIGNS or len(ch) != 2 or not z3.is_arith(ch[0]) \
                or ch[0].sort() != z3.RealSort():
            return None
        signs = set(self._SIGNS[k])
        if neg:
            signs = set("-0+") - signs
        return ch[0] - ch[1], signs

    def _formal_decide(self, cond):
        a = self._atom(cond)
        if a is None:
            return None
        d, want = a
        from vf.zdiff import formally_equal
        for dp, have in self.sign_cache:
            flip = None
            if formally_equal(d, dp):
                flip = False
            elif formally_equal(d, -dp):
                flip = True
            if flip is None:
                continue
            h = have if not flip else set({"-": "+", "+": "-", "0": "0"}[x]
                                          for x in have)
            if h <= want:
                return True
            if not (h & want):
                return False
        return None

    def _remember(self, cond, v):
        a = self._atom(cond)
        if a is None:
            return
        d, signs = a
        self.sign_cache.append((d, signs if v else set("-0+") - signs))

    def concretize(self, term, candidates=None):
        """fork over the feasible concrete values of an Int term"""
        term = simp(term)
        if z3.is_int_value(term):
            return term.as_long()
        tried = 0
        while True:
            i = len(self.decisions)
            if i < len(self.prefix) and self.prefix[i][0] == "c":
                v = self.prefix[i][1]
            else:
                if candidates is not None:
                    if tried >= len(candidates):
                        raise BoundExceeded("concretize: value outside "
                                            "candidates")
                    v = candidates[tried]
                else:
                    r = self._check()
                    if r != "sat":
                        raise NotEncodable("concretize: solver said " + r)
                    v = self.last_model_solver.model().eval(
                        term, True).as_long()
            tried += 1
            cond = term == v
            # inline branch() with a ('c', v, bool) record
            if i < len(self.prefix):
                d = self.prefix[i]
                self.decisions.append(d)
                self.add(cond if d[-1] else z3.Not(cond))
                if d[-1]:
                    return v
                continue
            self.stats.feas_checks += 1
            rt = self._check(cond)
            if rt == "unsat":
                self.decisions.append(("c", v, False))
                self.add(z3.Not(cond))
                continue
            self.stats.feas_checks += 1
            rf = self._check(z3.Not(cond))
            if rf != "unsat":
                self.alternatives.append(
                    tuple(self.decisions) + (("c", v, False),))
            self.decisions.append(("c", v, True))
            self.add(cond)
            return v

    # -- fresh symbols and math ---------------------------------------------
    def fresh_real(self, hint="t"):
        return z3.Real("%s!%d" % (hint, next(self.fresh)))

    def sqrt(self, t):
        t = simp(t)
        if z3.is_rational_value(t):
            fr = Fraction(t.numerator_as_long(), t.denominator_as_long())
            if fr < 0:
                raise ValueError("math domain error")
            rn, rd = math.isqrt(fr.numerator), math.isqrt(fr.denominator)
            if rn * rn == fr.numerator and rd * rd == fr.denominator:
                return SReal(rv(Fraction(rn, rd)))
        key = t.get_id()
        if key in self.sqrt_memo:
            return SReal(self.sqrt_memo[key][1])
        if self.formal_cache:
            from vf.zdiff import formally_equal
            for (tp, yp) in list(self.sqrt_memo.values()):
                if formally_equal(t, tp):
                    self.sqrt_memo[key] = (t, yp)
                    return SReal(yp)
        for cand, sq in self.root_defs:
            # registered root with its defining square (cand >= 0 and
            # cand*cand == sq are in the path condition): formal identity
            from vf.zdiff import formally_equal
            if formally_equal(t, sq):
                self.sqrt_memo[key] = (t, cand)
                self.roots_used += 1
                return SReal(cand)
        for cand in self.root_candidates:
            # registered non-negative root: justified by a solver query
            r, _ = solve(list(self.pc) + [t != cand * cand], 3000)
            self.stats.feas_checks += 1
            if r == "unsat":
                self.sqrt_memo[key] = (t, cand)
                self.roots_used += 1
                return SReal(cand)
        if self.branch(t < 0):
            raise ValueError("math domain error (symbolic sqrt)")
        y = self.fresh_real("sqrt")
        self.sqrt_memo[key] = (t, y)
        self.add(y >= 0)
        self.add(y * y == t)
        return SReal(y)

    def exp(self, t):
        t = simp(t)
        if z3.is_rational_value(t) and t.numerator_as_long() == 0:
            return SReal(z3.RealVal(1))
        key = t.get_id()
        if key not in self.exp_memo:
            y = uf("exp", 1)(t)
            self.exp_memo[key] = (t, y)
            self.add(y > 0)
        return SReal(self.exp_memo[key][1])

    def pow(self, a, b):
        a, b = simp(a), simp(b)
        y = uf("pow", 2)(a, b)
        key = y.get_id()
        if key not in self.pow_memo:
            # axioms of real pow that hold for every exponent
            self.pow_memo[key] = y
            self.add(z3.Implies(a == 1, y == 1))
            self.add(z3.Implies(a > 0, y > 0))
            self.add(z3.Implies(b == 0, y == 1))
            self.add(z3.Implies(b == 1, y == a))
        return SReal(y)

    # -- claims ----------------------------------------------------------------
    def prove(self, claim, timeout_ms=30000, extra=()):
        """returns ('unsat', None) if claim holds on this path,
        ('sat', model) with a counter-example, or ('unknown', None)."""
        c = to_bool(claim)
        t0 = time.time()
        asserts = list(self.pc) + list(extra) + [z3.Not(c)]
        r, model = solve(asserts, timeout_ms)
        self.stats.solver_s += time.time() - t0
        self.stats.queries[r] += 1
        return r, model

    def register_root(self, cand, sq):
        """cand is the non-negative root of sq (asserted here)"""
        self.add(cand >= 0)
        self.add(cand * cand == sq)
        self.root_defs.append((cand, sq))

    def prove_eqs(self, pairs, timeout_ms=30000, guard=None):
        """claim: guard => And(a == b for a, b in pairs).  First tries z3's
        sum-of-monomials normaliser on the cleared-denominator difference
        (a formal identity of rational functions over the path's atoms; all
        divisors on the path are non-zero by construction), then the full
        solver query on the cleared form."""
        from vf.zdiff import clear_div, _num
        t0 = time.time()
        residual = []
        for a, b in pairs:
            an, ad = clear_div(to_real(a))
            bn, bd = clear_div(to_real(b))
            d = z3.simplify(an * bd - bn * ad, som=True)
            n = _num(d)
            if n is not None and n == 0:
                continue
            fresh = [(y, t) for (t, y) in self.sqrt_memo.values()
                     if z3.is_const(y) and y.decl().name().startswith(
                         "sqrt!")]
            if fresh:
                from vf.zdiff import reduce_mod_roots
                try:
                    if reduce_mod_roots(d, fresh):
                        continue
                except Exception:
                    pass
            residual.append(d != 0)
        if not residual:
            self.stats.solver_s += time.time() - t0
            self.stats.queries["unsat"] += 1
            self.formal += 1
            return "unsat", None
        asserts = list(self.pc)
        if guard is not None:
            asserts.append(to_bool(guard))
        asserts.append(z3.Or(*residual))
        r, model = solve(asserts, timeout_ms)
        self.stats.solver_s += time.time() - t0
        self.stats.queries[r] += 1
        return r, model

    def reachable(self, timeout_ms=10000):
        r = self._check(timeout_ms=timeout_ms)
        return r

    def smt2(self, claim):
        s = z3.Solver()
        for p in self.pc:
            s.add(p)
        s.add(z3.Not(to_bool(claim)))
        return s.to_smt2()


def _uf_apps(terms, names=("exp",)):
    seen, apps = set(), []

    def walk(e):
        k = e.get_id()
        if k in seen:
            return
        seen.add(k)
        if z3.is_app(e):
            if e.decl().kind() == z3.Z3_OP_UNINTERPRETED and \
                    e.num_args() == 1 and e.decl().name() in names:
                apps.append(e)
            for ch in e.children():
                walk(ch)
    for t in terms:
        walk(t)
    return apps


def abstract_ufs(asserts, names=("exp",)):
    """Replace applications f(a) of the named unary UFs by fresh reals, one
    per class of syntactically-equal (after polynomial normalisation)
    arguments.  Sound for `unsat` (it only forgets congruence)."""
    apps = _uf_apps(asserts, names)
    if not apps:
        return None
    classes = []          # (name, arg, var)
    subs = []
    for a in apps:
        arg = a.arg(0)
        for (nm, rep, var) in classes:
            if nm == a.decl().name() and z3.is_true(z3.simplify(
                    z3.simplify(arg - rep, som=True) == 0)):
                subs.append((a, var))
                break
        else:
            var = z3.Real("%s!abs%d" % (a.decl().name(), len(classes)))
            classes.append((a.decl().name(), arg, var))
            subs.append((a, var))
    # innermost first is not needed: exp arguments here never contain exp
    new = [z3.substitute(t, *subs) for t in asserts]
    new += [v > 0 for (nm, _, v) in classes if nm == "exp"]
    if _uf_apps(new, names):
        return None
    return new


def solve(asserts, timeout_ms):
    """One-shot query on a fresh solver.  If unary UFs (exp) occur, an
    abstraction to fresh reals is tried first so that nlsat applies."""
    ab = abstract_ufs(asserts)
    if ab is not None:
        s = z3.Solver()
        s.set("timeout", int(timeout_ms))
        s.add(*ab)
        if str(s.check()) == "unsat":
            return "unsat", None
    s = z3.Solver()
    s.set("timeout", int(timeout_ms))
    s.add(*asserts)
    r = str(s.check())
    if r == "sat":
        return r, s.model()
    return r, None


class Path(object):
    def __init__(self, c, value, exc):
        self.ctx = c
        self.value = value
        self.exc = exc

    @property
    def decisions(self):
        return self.ctx.decisions


def explore(fn, max_paths=20000, deadline_s=None, stats=None, **ctxkw):
    """Call fn(ctx) once per feasible path.  Yields Path objects.  The
    generator keeps the global context installed while the consumer handles
    the path, so claims can be discharged against path.ctx."""
    global _CTX
    stats = stats if stats is not None else Stats()
    work = [()]
    t0 = time.time()
    while work:
        if stats.paths >= max_paths:
            stats.incomplete = "max_paths=%d reached" % max_paths
            return
        if deadline_s is not None and time.time() - t0 > deadline_s:
            stats.incomplete = "deadline %ss reached" % deadline_s
            return
        prefix = work.pop()
        c = Ctx(prefix, stats, **ctxkw)
        old = _CTX
        _CTX = c
        try:
            try:
                val, exc = fn(c), None
            except Infeasible:
                stats.infeasible += 1
                work.extend(c.alternatives)
                continue
            except BoundExceeded as e:
                stats.bound_exceeded += 1
                work.extend(c.alternatives)
                val, exc = None, e
            except PathAbort:
                work.extend(c.alternatives)
                continue
            except Exception as e:
                val, exc = None, e
            work.extend(c.alternatives)
            stats.paths += 1
            yield Path(c, val, exc)
        finally:
            _CTX = old


# ---------------------------------------------------------------------------
# model helpers

def model_value(model, term):
    """python Fraction/int/bool of a term under a model (completion on)"""
    v = model.eval(term, model_completion=True)
    if z3.is_int_value(v):
        return v.as_long()
    if z3.is_rational_value(v):
        return Fraction(v.numerator_as_long(), v.denominator_as_long())
    if z3.is_true(v):
        return True
    if z3.is_false(v):
        return False
    if z3.is_algebraic_value(v):
        a = v.approx(30)
        return Fraction(a.numerator_as_long(), a.denominator_as_long())
    raise NotEncodable("cannot read model value %s" % v)


def reals(names):
    return [SReal(z3.Real(n)) for n in names]


def real(name):
    return SReal(z3.Real(name))


def integer(name):
    return SInt(z3.Int(name))


def boolean(name):
    return SBool(z3.Bool(name))


def And(*a):
    return SBool(z3.And(*[to_bool(x) for x in a]))


def Or(*a):
    return SBool(z3.Or(*[to_bool(x) for x in a]))


def Not(a):
    return SBool(z3.Not(to_bool(a)))


def Implies(a, b):
    return SBool(z3.Implies(to_bool(a), to_bool(b)))


def ite(c, a, b):
    return SReal(z3.If(to_bool(c), to_real(a), to_real(b)))
