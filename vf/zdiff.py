"""Formal differentiation, closure (relaxation) of path conditions and
z3 <-> sympy conversion for real-valued z3 terms."""
from fractions import Fraction

import z3

from vf.symx import rv


def _num(t):
    if z3.is_rational_value(t):
        return Fraction(t.numerator_as_long(), t.denominator_as_long())
    if z3.is_int_value(t):
        return Fraction(t.as_long())
    return None


def diff(t, x, uf_rules=None):
    """d t / d x for a Real-sorted z3 term built from + - * / ^const, ite,
    numerals, variables and unary uninterpreted functions with a rule in
    uf_rules: name -> lambda arg_term: derivative-of-f-at-arg."""
    uf_rules = uf_rules or {}
    memo = {}

    def d(e):
        k = e.get_id()
        if k in memo:
            return memo[k]
        r = _d(e)
        memo[k] = r
        return r

    def _d(e):
        if _num(e) is not None:
            return z3.RealVal(0)
        if z3.eq(e, x):
            return z3.RealVal(1)
        if z3.is_const(e):
            return z3.RealVal(0)
        kind = e.decl().kind()
        ch = e.children()
        if kind == z3.Z3_OP_ADD:
            return z3.Sum([d(c) for c in ch])
        if kind == z3.Z3_OP_SUB:
            r = d(ch[0])
            for c in ch[1:]:
                r = r - d(c)
            return r
        if kind == z3.Z3_OP_UMINUS:
            return -d(ch[0])
        if kind == z3.Z3_OP_MUL:
            terms = []
            for i in range(len(ch)):
                di = d(ch[i])
                if _num(di) == 0:
                    continue
                fs = [di] + [ch[j] for j in range(len(ch)) if j != i]
                terms.append(z3.Product(fs))
            return z3.Sum(terms) if terms else z3.RealVal(0)
        if kind == z3.Z3_OP_DIV:
            a, b = ch
            da, db = d(a), d(b)
            if _num(db) == 0:
                return da / b
            return (da * b - a * db) / (b * b)
        if kind == z3.Z3_OP_POWER:
            a, b = ch
            n = _num(b)
            if n is None or n.denominator != 1:
                raise ValueError("diff: non-integer power %s" % e)
            n = int(n)
            return rv(n) * (a ** (n - 1)) * d(a)
        if kind == z3.Z3_OP_ITE:
            return z3.If(ch[0], d(ch[1]), d(ch[2]))
        if kind == z3.Z3_OP_TO_REAL:
            return z3.RealVal(0)
        if kind == z3.Z3_OP_UNINTERPRETED and len(ch) == 1:
            name = e.decl().name()
            if name in uf_rules:
                return uf_rules[name](ch[0]) * d(ch[0])
        raise ValueError("diff: unsupported term %s" % e)

    return z3.simplify(d(t))


def relax(cond):
    """closure of a conjunction literal: strict inequalities become
    non-strict, disequalities disappear."""
    c = z3.simplify(cond)
    neg = False
    if z3.is_not(c):
        neg = True
        c = c.children()[0]
    k = c.decl().kind()
    ch = c.children()
    if k == z3.Z3_OP_AND and not neg:
        return z3.And(*[relax(x) for x in ch])
    if k == z3.Z3_OP_OR and neg:
        return z3.And(*[relax(z3.Not(x)) for x in ch])
    if len(ch) == 2 and z3.is_arith(ch[0]):
        a, b = ch
        if not neg:
            if k in (z3.Z3_OP_LT, z3.Z3_OP_LE):
                return a <= b
            if k in (z3.Z3_OP_GT, z3.Z3_OP_GE):
                return a >= b
            if k == z3.Z3_OP_EQ:
                return a == b
        else:
            if k in (z3.Z3_OP_LT, z3.Z3_OP_LE):
                return a >= b
            if k in (z3.Z3_OP_GT, z3.Z3_OP_GE):
                return a <= b
            if k in (z3.Z3_OP_EQ, z3.Z3_OP_DISTINCT):
                return z3.BoolVal(True)
    if k == z3.Z3_OP_DISTINCT and not neg:
        return z3.BoolVal(True)
    # anything else: keep as is (sound: closure only needs to be a superset
    # when used to ask for equality of two pieces on the common boundary)
    return z3.Not(c) if neg else c


def to_sympy(t, symbols):
    """z3 term -> sympy expression (exact rationals)."""
    import sympy as sp
    memo = {}

    def g(e):
        k = e.get_id()
        if k in memo:
            return memo[k]
        r = _g(e)
        memo[k] = r
        return r

    def _g(e):
        n = _num(e)
        if n is not None:
            return sp.Rational(n.numerator, n.denominator)
        if z3.is_const(e):
            name = e.decl().name()
            if name not in symbols:
                symbols[name] = sp.Symbol(name, real=True)
            return symbols[name]
        kind = e.decl().kind()
        ch = [g(c) for c in e.children()]
        if kind == z3.Z3_OP_ADD:
            return sp.Add(*ch)
        if kind == z3.Z3_OP_SUB:
            r = ch[0]
            for c in ch[1:]:
                r = r - c
            return r
        if kind == z3.Z3_OP_UMINUS:
            return -ch[0]
        if kind == z3.Z3_OP_MUL:
            return sp.Mul(*ch)
        if kind == z3.Z3_OP_DIV:
            return ch[0] / ch[1]
        if kind == z3.Z3_OP_POWER:
            return ch[0] ** ch[1]
        raise ValueError("to_sympy: unsupported %s" % e)

    return g(t)


def from_sympy(e, zvars):
    """sympy expression (rational function) -> z3 term"""
    import sympy as sp

    def g(x):
        if x.is_Rational:
            return rv(Fraction(int(x.p), int(x.q)))
        if x.is_Symbol:
            return zvars[x.name]
        if x.is_Add:
            return z3.Sum([g(a) for a in x.args])
        if x.is_Mul:
            return z3.Product([g(a) for a in x.args])
        if x.is_Pow:
            b, ex = x.args
            if ex.is_Integer:
                n = int(ex)
                base = g(b)
                r = z3.RealVal(1)
                for _ in range(abs(n)):
                    r = r * base
                return r if n >= 0 else z3.RealVal(1) / r
        raise ValueError("from_sympy: unsupported %s" % (x,))

    return g(sp.sympify(e))


def clear_div(t):
    """(num, den) z3 terms without division such that t == num/den wherever
    every divisor occurring in t is non-zero.  Opaque sub-terms (ite, UF
    applications, variables) are atoms."""
    memo = {}
    one = z3.RealVal(1)

    def g(e):
        k = e.get_id()
        if k in memo:
            return memo[k]
        r = _g(e)
        memo[k] = r
        return r

    def is_one(x):
        n = _num(x)
        return n is not None and n == 1

    def mul(a, b):
        if is_one(a):
            return b
        if is_one(b):
            return a
        return a * b

    def _g(e):
        if _num(e) is not None or z3.is_const(e):
            return e, one
        kind = e.decl().kind()
        ch = e.children()
        if kind == z3.Z3_OP_ADD or kind == z3.Z3_OP_SUB:
            parts = [g(c) for c in ch]
            den = one
            seen = []
            for _, d in parts:
                if not is_one(d) and not any(z3.eq(d, s) for s in seen):
                    seen.append(d)
                    den = mul(den, d)
            nums = []
            for n, d in parts:
                f = n
                for s in seen:
                    if not (not is_one(d) and z3.eq(d, s)):
                        f = mul(f, s)
                nums.append(f)
            if kind == z3.Z3_OP_ADD:
                return z3.Sum(nums), den
            r = nums[0]
            for x in nums[1:]:
                r = r - x
            return r, den
        if kind == z3.Z3_OP_UMINUS:
            n, d = g(ch[0])
            return -n, d
        if kind == z3.Z3_OP_MUL:
            n, d = one, one
            for c in ch:
                cn, cd = g(c)
                n, d = mul(n, cn), mul(d, cd)
            return n, d
        if kind == z3.Z3_OP_DIV:
            an, ad = g(ch[0])
            bn, bd = g(ch[1])
            return mul(an, bd), mul(ad, bn)
        if kind == z3.Z3_OP_POWER:
            n = _num(ch[1])
            if n is not None and n.denominator == 1 and 0 <= n <= 8:
                an, ad = g(ch[0])
                rn, rd = one, one
                for _ in range(int(n)):
                    rn, rd = mul(rn, an), mul(rd, ad)
                return rn, rd
        return e, one      # atom

    return g(z3.simplify(t))


def formally_equal(a, b):
    """True if a == b is a formal identity of rational functions over the
    atoms of a and b (decided by z3's own sum-of-monomials normaliser after
    clearing denominators).  Sound whenever the divisors are non-zero."""
    an, ad = clear_div(a)
    bn, bd = clear_div(b)
    r = z3.simplify(an * bd - bn * ad, som=True)
    n = _num(r)
    return n is not None and n == 0


# -- sparse polynomials over Q: {((var, exp), ...): Fraction} ----------------

def _padd(a, b, sign=1):
    r = dict(a)
    for m, c in b.items():
        v = r.get(m, 0) + sign * c
        if v == 0:
            r.pop(m, None)
        else:
            r[m] = v
    return r


def _mmul(m1, m2):
    d = dict(m1)
    for v, e in m2:
        d[v] = d.get(v, 0) + e
    return tuple(sorted(d.items()))


def _pmul(a, b):
    r = {}
    if len(a) > len(b):
        a, b = b, a
    for m1, c1 in a.items():
        for m2, c2 in b.items():
            m = _mmul(m1, m2)
            v = r.get(m, 0) + c1 * c2
            if v == 0:
                r.pop(m, None)
            else:
                r[m] = v
    return r


def _ppow(a, n):
    r = {(): Fraction(1)}
    for _ in range(n):
        r = _pmul(r, a)
    return r


def poly_dict(e, limit=400000):
    """polynomial z3 term (no division) -> sparse dict; atoms other than
    constants are rejected"""
    memo = {}

    def g(x):
        k = x.get_id()
        if k in memo:
            return memo[k]
        r = _g(x)
        if len(r) > limit:
            raise ValueError("polynomial too large")
        memo[k] = r
        return r

    def _g(x):
        n = _num(x)
        if n is not None:
            return {(): n} if n != 0 else {}
        if z3.is_const(x):
            return {((x.decl().name(), 1),): Fraction(1)}
        kind = x.decl().kind()
        ch = x.children()
        if kind == z3.Z3_OP_ADD:
            r = {}
            for c in ch:
                r = _padd(r, g(c))
            return r
        if kind == z3.Z3_OP_SUB:
            r = g(ch[0])
            for c in ch[1:]:
                r = _padd(r, g(c), -1)
            return r
        if kind == z3.Z3_OP_UMINUS:
            return _padd({}, g(ch[0]), -1)
        if kind == z3.Z3_OP_MUL:
            r = {(): Fraction(1)}
            for c in ch:
                r = _pmul(r, g(c))
            return r
        if kind == z3.Z3_OP_POWER:
            n = _num(ch[1])
            if n is not None and n.denominator == 1 and 0 <= n <= 16:
                return _ppow(g(ch[0]), int(n))
        raise ValueError("poly_dict: unsupported %s" % x.decl())

    return g(e)


def reduce_mod_roots(R, roots, budget_s=60):
    """R: polynomial z3 term.  roots: list of (y, t), y a z3 Real constant
    with y*y == t on the path (t rational, denominator non-zero on the
    path).  Eliminates y^k (k >= 2) with D*y^2 = N and reports whether the
    result is the zero polynomial (then R == 0 on the path).  The sparse
    polynomial arithmetic used here is part of the trusted base."""
    import time as _t
    t0 = _t.time()
    try:
        P = poly_dict(R)
    except ValueError:
        return False
    for y, t in reversed(list(roots)):
        if _t.time() - t0 > budget_s:
            return False
        name = y.decl().name()
        if not any(v == name for m in P for v, _ in m):
            continue
        tn, td = clear_div(t)
        try:
            N, D = poly_dict(tn), poly_dict(td)
        except ValueError:
            return False
        # split by power of y
        byk = {}
        for m, c in P.items():
            k = 0
            rest = []
            for v, e in m:
                if v == name:
                    k = e
                else:
                    rest.append((v, e))
            byk.setdefault(k, {})[tuple(rest)] = c
        K = max(k // 2 for k in byk)
        if K == 0:
            continue
        Npow = {0: {(): Fraction(1)}}
        Dpow = {0: {(): Fraction(1)}}
        for i in range(1, K + 1):
            Npow[i] = _pmul(Npow[i - 1], N)
            Dpow[i] = _pmul(Dpow[i - 1], D)
        newP = {}
        for k, ck in byk.items():
            term = _pmul(_pmul(ck, Npow[k // 2]), Dpow[K - k // 2])
            if k % 2:
                term = dict((_mmul(m, ((name, 1),)), c)
                            for m, c in term.items())
            newP = _padd(newP, term)
            if len(newP) > 400000 or _t.time() - t0 > budget_s:
                return False
        P = newP
        if not P:
            return True
    return not P


def _old_reduce_mod_roots(R, roots):

    """R: polynomial z3 term (no division).  roots: list of (y, t) with y a
    z3 Real constant constrained by y*y == t on the path (t a rational
    function whose denominator is non-zero on the path).  Tries to show
    R == 0 modulo those relations by pseudo-division (sympy, untrusted);
    every division step  lc^m * R == Q*g + rem  is re-checked by z3's
    normaliser.  Returns True only if the final remainder is identically 0."""
    import sympy as sp
    syms = {}
    try:
        Rs = to_sympy(z3.simplify(R), syms)
    except ValueError:
        return False
    zvars = {}

    def collect(e):
        if z3.is_const(e) and _num(e) is None:
            zvars[e.decl().name()] = e
        for c in e.children():
            collect(c)
    collect(R)
    cur_z = R
    cur_s = sp.expand(Rs)
    # later roots may be defined in terms of earlier ones: go backwards
    for y, t in reversed(list(roots)):
        name = y.decl().name()
        if name not in syms:
            continue
        tn, td = clear_div(t)
        collect(tn)
        collect(td)
        collect(y)
        g_z = td * y * y - tn
        try:
            g_s = sp.expand(to_sympy(z3.simplify(g_z), syms))
        except ValueError:
            return False
        ys = syms[name]
        if sp.degree(cur_s, ys) < 2:
            continue
        q_s, r_s = sp.pdiv(cur_s, g_s, ys)
        m = sp.degree(cur_s, ys) - 2 + 1
        lc_s = sp.LC(g_s, ys)
        try:
            q_z = from_sympy(sp.expand(q_s), zvars)
            r_z = from_sympy(sp.expand(r_s), zvars) if r_s != 0 \
                else z3.RealVal(0)
            lc_z = from_sympy(sp.expand(lc_s ** m), zvars)
        except (ValueError, KeyError):
            return False
        chk = z3.simplify(lc_z * cur_z - q_z * g_z - r_z, som=True)
        n = _num(chk)
        if n is None or n != 0:
            return False          # certificate rejected by z3
        cur_z, cur_s = r_z, sp.expand(r_s)
        if cur_s == 0:
            return True
    n = _num(z3.simplify(cur_z, som=True))
    return n is not None and n == 0
