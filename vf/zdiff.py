"""Formal differentiation, closure (relaxation) of path conditions and
z3 <-> sympy conversion for real-valued z3 terms."""
from fractions import Fraction

import z3

from vf.symx import rv


def _num(t):
    if z3.is_rational_value(t):
        return Fraction(t.numerator_as_long(), t.denominator_as_long())
    if z3.is_int_value(t):
        return Fraction(t.as_long())
    return None


def diff(t, x, uf_rules=None):
    """d t / d x for a Real-sorted z3 term built from + - * / ^const, ite,
    numerals, variables and unary uninterpreted functions with a rule in
    uf_rules: name -> lambda arg_term: derivative-of-f-at-arg."""
    uf_rules = uf_rules or {}
    memo = {}

    def d(e):
        k = e.get_id()
        if k in memo:
            return memo[k]
        r = _d(e)
        memo[k] = r
        return r

    def _d(e):
        if _num(e) is not None:
            return z3.RealVal(0)
        if z3.eq(e, x):
            return z3.RealVal(1)
        if z3.is_const(e):
            return z3.RealVal(0)
        kind = e.decl().kind()
        ch = e.children()
        if kind == z3.Z3_OP_ADD:
            return z3.Sum([d(c) for c in ch])
        if kind == z3.Z3_OP_SUB:
            r = d(ch[0])
            for c in ch[1:]:
                r = r - d(c)
            return r
        if kind == z3.Z3_OP_UMINUS:
            return -d(ch[0])
        if kind == z3.Z3_OP_MUL:
            terms = []
            for i in range(len(ch)):
                di = d(ch[i])
                if _num(di) == 0:
                    continue
                fs = [di] + [ch[j] for j in range(len(ch)) if j != i]
                terms.append(z3.Product(fs))
            return z3.Sum(terms) if terms else z3.RealVal(0)
        if kind == z3.Z3_OP_DIV:
            a, b = ch
            da, db = d(a), d(b)
            if _num(db) == 0:
                return da / b
            return (da * b - a * db) / (b * b)
        if kind == z3.Z3_OP_POWER:
            a, b = ch
            n = _num(b)
            if n is None or n.denominator != 1:
                raise ValueError("diff: non-integer power %s" % e)
            n = int(n)
            return rv(n) * (a ** (n - 1)) * d(a)
        if kind == z3.Z3_OP_ITE:
            return z3.If(ch[0], d(ch[1]), d(ch[2]))
        if kind == z3.Z3_OP_TO_REAL:
            return z3.RealVal(0)
        if kind == z3.Z3_OP_UNINTERPRETED and len(ch) == 1:
            name = e.decl().name()
            if name in uf_rules:
                return uf_rules[name](ch[0]) * d(ch[0])
        raise ValueError("diff: unsupported term %s" % e)

    return z3.simplify(d(t))


def relax(cond):
    """closure of a conjunction literal: strict inequalities become
    non-strict, disequalities disappear."""
    c = z3.simplify(cond)
    neg = False
    if z3.is_not(c):
        neg = True
        c = c.children()[0]
    k = c.decl().kind()
    ch = c.children()
    if k == z3.Z3_OP_AND and not neg:
        return z3.And(*[relax(x) for x in ch])
    if k == z3.Z3_OP_OR and neg:
        return z3.And(*[relax(z3.Not(x)) for x in ch])
    if len(ch) == 2 and z3.is_arith(ch[0]):
        a, b = ch
        if not neg:
            if k in (z3.Z3_OP_LT, z3.Z3_OP_LE):
                return a <= b
            if k in (z3.Z3_OP_GT, z3.Z3_OP_GE):
                return a >= b
            if k == z3.Z3_OP_EQ:
                return a == b
        else:
            if k in (z3.Z3_OP_LT, z3.Z3_OP_LE):
                return a >= b
            if k in (z3.Z3_OP_GT, z3.Z3_OP_GE):
                return a <= b
            if k in (z3.Z3_OP_EQ, z3.Z3_OP_DISTINCT):
                return z3.BoolVal(True)
    if k == z3.Z3_OP_DISTINCT and not neg:
        return z3.BoolVal(True)
    # anything else: keep as is (sound: closure only needs to be a superset
    # when used to ask for equality of two pieces on the common boundary)
    return z3.Not(c) if neg else c


def to_sympy(t, symbols):
    """z3 term -> sympy expression (exact rationals)."""
    import sympy as sp
    memo = {}

    def g(e):
        k = e.get_id()
        if k in memo:
            return memo[k]
        r = _g(e)
        memo[k] = r
        return r

    def _g(e):
        n = _num(e)
        if n is not None:
            return sp.Rational(n.numerator, n.denominator)
        if z3.is_const(e):
            name = e.decl().name()
            if name not in symbols:
                symbols[name] = sp.Symbol(name, real=True)
            return symbols[name]
        kind = e.decl().kind()
        ch = [g(c) for c in e.children()]
        if kind == z3.Z3_OP_ADD:
            return sp.Add(*ch)
        if kind == z3.Z3_OP_SUB:
            r = ch[0]
            for c in ch[1:]:
                r = r - c
            return r
        if kind == z3.Z3_OP_UMINUS:
            return -ch[0]
        if kind == z3.Z3_OP_MUL:
            return sp.Mul(*ch)
        if kind == z3.Z3_OP_DIV:
            return ch[0] / ch[1]
        if kind == z3.Z3_OP_POWER:
            return ch[0] ** ch[1]
        raise ValueError("to_sympy: unsupported %s" % e)

    return g(t)


def from_sympy(e, zvars):
    """sympy expression (rational function) -> z3 term"""
    import sympy as sp

    def g(x):
        if x.is_Rational:
            return rv(Fraction(int(x.p), int(x.q)))
        if x.is_Symbol:
            return zvars[x.name]
        if x.is_Add:
            return z3.Sum([g(a) for a in x.args])
        if x.is_Mul:
            return z3.Product([g(a) for a in x.args])
        if x.is_Pow:
            b, ex = x.args
            if ex.is_Integer:
                n = int(ex)
                base = g(b)
                r = z3.RealVal(1)
                for _ in range(abs(n)):
                    r = r * base
                return r if n >= 0 else z3.RealVal(1) / r
        raise ValueError("from_sympy: unsupported %s" % (x,))

    return g(sp.sympify(e))


def clear_div(t):
    """(num, den) z3 terms without division such that t == num/den wherever
    every divisor occurring in t is non-zero.  Opaque sub-terms (ite, UF
    applications, variables) are atoms."""
    memo = {}
    one = z3.RealVal(1)

    def g(e):
        k = e.get_id()
        if k in memo:
            return memo[k]
        r = _g(e)
        memo[k] = r
        return r

    def is_one(x):
        n = _num(x)
        return n is not None and n == 1

    def mul(a, b):
        if is_one(a):
            return b
        if is_one(b):
            return a
        return a * b

    def _g(e):
        if _num(e) is not None or z3.is_const(e):
            return e, one
        kind = e.decl().kind()
        ch = e.children()
        if kind == z3.Z3_OP_ADD or kind == z3.Z3_OP_SUB:
            parts = [g(c) for c in ch]
            den = one
            seen = []
            for _, d in parts:
                if not is_one(d) and not any(z3.eq(d, s) for s in seen):
                    seen.append(d)
                    den = mul(den, d)
            nums = []
            for n, d in parts:
                f = n
                for s in seen:
                    if not (not is_one(d) and z3.eq(d, s)):
                        f = mul(f, s)
                nums.append(f)
            if kind == z3.Z3_OP_ADD:
                return z3.Sum(nums), den
            r = nums[0]
            for x in nums[1:]:
                r = r - x
            return r, den
        if kind == z3.Z3_OP_UMINUS:
            n, d = g(ch[0])
            return -n, d
        if kind == z3.Z3_OP_MUL:
            n, d = one, one
            for c in ch:
                cn, cd = g(c)
                n, d = mul(n, cn), mul(d, cd)
            return n, d
        if kind == z3.Z3_OP_DIV:
            an, ad = g(ch[0])
            bn, bd = g(ch[1])
            return mul(an, bd), mul(ad, bn)
        if kind == z3.Z3_OP_POWER:
            n = _num(ch[1])
            if n is not None and n.denominator == 1 and 0 <= n <= 8:
                an, ad = g(ch[0])
                rn, rd = one, one
                for _ in range(int(n)):
                    rn, rd = mul(rn, an), mul(rd, ad)
                return rn, rd
        return e, one      # atom

    return g(z3.simplify(t))


def formally_equal(a, b):
    """True if a == b is a formal identity of rational functions over the
    atoms of a and b (decided by z3's own sum-of-monomials normaliser after
    clearing denominators).  Sound whenever the divisors are non-zero."""
    an, ad = clear_div(a)
    bn, bd = clear_div(b)
    r = z3.simplify(an * bd - bn * ad, som=True)
    n = _num(r)
    return n is not None and n == 0
