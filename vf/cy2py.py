"""Lowering of hand-written Cython (pysph/base/*.pyx, *.pxd) to Python,
function by function, for symbolic execution.  Built on vf/gen2py.py with
the extra constructs that hand-written code uses:

  continuation lines are joined (balanced brackets / trailing backslash)
  numeric casts  <int>e, <long>e, <size_t>e ...  ->  c_int(e)  (truncation)
  other casts    <T>e, <T*>e                        ->  e
  &scalar in call arguments  ->  one-element list references
        f(a, &u, &v)   =>   _r_u=[u]; _r_v=[v]; f(a, _r_u, _r_v); u=_r_u[0]...
  decorators / docstrings are kept (decorators @cython.* dropped)

A function that still contains Cython syntax after lowering raises
NotEncodable: nothing is skipped silently."""
import re
import os

from vf import gen2py
from vf.gen2py import NotEncodable
from vf.symx import sym_int, is_sym

NUMCAST = re.compile(
    r"<\s*(?:unsigned\s+)?(?:int|long|size_t|short|char|unsigned|"
    r"ZOLTAN_ID_TYPE)(?:\s+(?:int|long))?\s*>")


def c_int(x):
    """C conversion to an integer type: truncation toward zero"""
    if is_sym(x):
        return sym_int(x)
    return int(x)


_DOC = re.compile(r'^([ \t]*)(?:[ru]?)("""|\'\'\')(?:.|\n)*?\2[ \t]*$', re.M)


def strip_docstrings(text):
    """statement-level triple-quoted strings -> blank lines (an unbalanced
    bracket inside a docstring must not confuse the line joiner)"""
    return _DOC.sub(lambda m: "\n" * m.group(0).count("\n"), text)


_RAISE2 = re.compile(r"^(\s*)raise\s+([A-Za-z_][\w\.]*)\s*,\s*(.+)$")


def join_lines(text):
    text = strip_docstrings(text)
    out, buf, depth = [], "", 0
    for raw in text.split("\n"):
        line = raw.rstrip()
        code = line.split("#")[0] if "'" not in line and '"' not in line \
            else line
        if buf:
            buf += " " + line.strip()
        else:
            buf = line
        depth += sum(code.count(c) for c in "([{") - \
            sum(code.count(c) for c in ")]}")
        if buf.endswith("\\"):
            buf = buf[:-1].rstrip()
            continue
        if depth > 0:
            continue
        depth = 0
        out.append(buf)
        buf = ""
    if buf:
        out.append(buf)
    return "\n".join(out)


def _extent(s, i):
    """end index of the unary expression starting at s[i]"""
    n = len(s)
    while i < n and s[i] == " ":
        i += 1
    j = i
    if j < n and s[j] in "+-":
        j += 1
    if j < n and s[j] == "(":
        depth = 0
        while j < n:
            if s[j] in "([":
                depth += 1
            elif s[j] in ")]":
                depth -= 1
                if depth == 0:
                    return j + 1
            j += 1
        return n
    while j < n and (s[j].isalnum() or s[j] in "_."):
        j += 1
    while j < n and s[j] in "([":
        depth = 0
        while j < n:
            if s[j] in "([":
                depth += 1
            elif s[j] in ")]":
                depth -= 1
                if depth == 0:
                    j += 1
                    break
            j += 1
        while j < n and (s[j].isalnum() or s[j] in "_."):
            j += 1
    return j


def numeric_casts(line):
    while True:
        m = NUMCAST.search(line)
        if not m:
            return line
        e = _extent(line, m.end())
        line = line[:m.start()] + "c_int(" + line[m.end():e].strip() + ")" + \
            line[e:]


_REF = re.compile(r"&\s*([A-Za-z_]\w*)\s*(?=[,\)])")


def scalar_refs(line):
    """f(.., &u, ..) with u a plain name -> reference cells"""
    names = _REF.findall(line)
    if not names:
        return line
    ind = line[:len(line) - len(line.lstrip())]
    body = _REF.sub(lambda m: "_r_" + m.group(1), line.strip())
    pre = "; ".join("_r_%s = [%s if '%s' in dir() else 0]" % (n, n, n)
                    for n in names)
    post = "; ".join("%s = _r_%s[0]" % (n, n) for n in names)
    return "%s%s\n%s%s\n%s%s" % (ind, pre, ind, body, ind, post)


def _tc(v, cls):
    """Cython's check when an object is bound to a variable or argument
    declared with an extension/builtin type (None is accepted)"""
    if v is None or isinstance(v, cls):
        return v
    raise TypeError("Cannot convert %s to %s" % (type(v).__name__,
                                                 getattr(cls, "__name__", cls)))


def typed_bindings(src, classes):
    """keep the run-time type checks of `cdef Cls x`, `cdef Cls x = e` and
    `Cls arg` in signatures for the class names given"""
    alt = "|".join(sorted(classes, key=len, reverse=True))
    decl_re = re.compile(r"^(\s*)cdef\s+(%s)\s+(.+)$" % alt)
    asg_re = re.compile(r"^(\s*)([A-Za-z_]\w*)\s*=(?!=)\s*(.+)$")
    hdr_re = re.compile(r"^(\s*)(?:cp?def|def)\s.*\((.*)\)[^()]*:\s*$")
    decl, out, pending = {}, [], None
    for line in src.split("\n"):
        if pending is not None and line.strip():
            ind = line[:len(line) - len(line.lstrip())]
            for nm, cls in pending:
                out.append("%s%s = _tc(%s, %s)" % (ind, nm, nm, cls))
            pending = None
        m = hdr_re.match(line)
        if m and not decl and pending is None and not out_has_def(out):
            args, depth, cur = [], 0, ""
            for ch in m.group(2):
                if ch in "([{":
                    depth += 1
                elif ch in ")]}":
                    depth -= 1
                if ch == "," and depth == 0:
                    args.append(cur)
                    cur = ""
                else:
                    cur += ch
            args.append(cur)
            pend = []
            for a in args:
                a = a.split("=")[0].strip()
                mm = re.match(r"^(%s)\s+([A-Za-z_]\w*)$" % alt, a)
                if mm:
                    pend.append((mm.group(2), mm.group(1)))
            pending = pend
            out.append(line)
            continue
        m = decl_re.match(line)
        if m:
            ind, cls, rest = m.groups()
            parts, depth, cur = [], 0, ""
            for ch in rest:
                if ch in "([{":
                    depth += 1
                elif ch in ")]}":
                    depth -= 1
                if ch == "," and depth == 0:
                    parts.append(cur)
                    cur = ""
                else:
                    cur += ch
            parts.append(cur)
            for part in parts:
                if "=" in part:
                    nm, expr = part.split("=", 1)
                    decl[nm.strip()] = cls
                    out.append("%s%s = _tc(%s, %s)" % (ind, nm.strip(),
                                                       expr.strip(), cls))
                else:
                    decl[part.strip()] = cls
            continue
        m = asg_re.match(line)
        if m and m.group(2) in decl:
            out.append("%s%s = _tc(%s, %s)" % (m.group(1), m.group(2),
                                               m.group(3), decl[m.group(2)]))
            continue
        out.append(line)
    return "\n".join(out)


def out_has_def(out):
    return any(re.match(r"^\s*(?:cp?def|def)\s", l) for l in out)


def cdef_blocks(src):
    """`cdef:` followed by an indented block of declarations -> one
    `cdef <decl>` line each (handled by the declaration rules)"""
    out, block = [], None
    for line in src.split("\n"):
        ind = len(line) - len(line.lstrip())
        if block is not None:
            if line.strip() and ind <= block:
                block = None
            elif line.strip():
                out.append(" " * (block) + "cdef " + line.strip())
                continue
            else:
                out.append(line)
                continue
        if line.strip() == "cdef:":
            block = ind
            continue
        out.append(line)
    return "\n".join(out)


def lower_source(src, typed=None):
    src = join_lines(src)
    src = cdef_blocks(src)
    if typed:
        src = typed_bindings(src, typed)
    lines = []
    for line in src.split("\n"):
        s = line.strip()
        if s.startswith("@cython.") or s.startswith("@cython"):
            continue
        line = numeric_casts(line)
        # &(<casted expr>).data[i]  ->  pointer view
        line = re.sub(r"&\(\s*(?:<[^>]+>)?\s*([^()]+?)\)\.data\[([^\]]+)\]",
                      r"PtrView((\1).data, \2)", line)
        m = _RAISE2.match(line)
        if m:                       # py2 form:  raise E, msg
            line = "%sraise %s(%s)" % m.groups()
        lines.append(line)
    low = gen2py.lower("\n".join(lines))
    out = []
    for line in low.split("\n"):
        if "_r_" not in line and "&" in line and "PtrView" not in line:
            line = scalar_refs(line)
        out.append(line)
    res = "\n".join(out)
    # names declared by a reference statement must exist: initialise
    for ln in res.split("\n"):
        t = ln.strip()
        if re.search(r"(?<![\w\)\]])&\s*[A-Za-z_]", t) and \
                not t.startswith("#"):
            raise NotEncodable("address-of not lowered: %r" % ln)
    return res


def split_module(path):
    """{'<func>': src, 'Class.method': src} for a .pyx/.pxd file"""
    with open(path) as fp:
        text = fp.read()
    lines = text.split("\n")
    items = {}
    cls = None
    cls_indent = 0
    i = 0
    n = len(lines)
    defre = re.compile(r"^(\s*)(?:cp?def|def)\s+(?:inline\s+)?(?:[\w\.\*\[\]]+"
                       r"(?:\s*\*+)?\s+)*?([A-Za-z_]\w*)\s*\(")
    while i < n:
        line = lines[i]
        m = re.match(r"^(\s*)cdef\s+class\s+(\w+)|^(\s*)class\s+(\w+)", line)
        if m:
            cls = m.group(2) or m.group(4)
            cls_indent = len(m.group(1) or m.group(3) or "")
            i += 1
            continue
        m = defre.match(line)
        if m and not line.strip().startswith(("cdef class", "cdef extern",
                                              "cdef struct")) and \
                (line.rstrip().endswith(":") or "(" in line):
            ind = len(m.group(1))
            name = m.group(2)
            # a declaration without body (pxd) ends without ':'
            j = i
            depth = 0
            header_end = i
            while j < n:
                code = lines[j]
                depth += sum(code.count(c) for c in "([{") - \
                    sum(code.count(c) for c in ")]}")
                if depth <= 0:
                    header_end = j
                    break
                j += 1
            if not lines[header_end].rstrip().endswith(":"):
                i = header_end + 1
                continue
            k = header_end + 1
            while k < n and (not lines[k].strip() or
                             len(lines[k]) - len(lines[k].lstrip()) > ind):
                k += 1
            # decorators directly above
            start = i
            while start > 0 and lines[start - 1].strip().startswith("@"):
                start -= 1
            body = "\n".join(lines[start:k])
            if cls is not None and ind > cls_indent:
                items["%s.%s" % (cls, name)] = _dedent(body, ind)
            else:
                if ind <= cls_indent:
                    cls = None
                items[name] = _dedent(body, ind)
            i = k
            continue
        if cls is not None and line.strip() and \
                len(line) - len(line.lstrip()) <= cls_indent and \
                not line.strip().startswith("#"):
            cls = None
        i += 1
    return items


def _dedent(body, ind):
    return "\n".join(l[ind:] if len(l) >= ind else l.strip()
                     for l in body.split("\n"))


class Module(object):
    """lowered functions of one or more files in a shared namespace"""

    def __init__(self, extra=None):
        self.ns = gen2py.base_namespace(extra)
        self.ns["c_int"] = c_int
        self.ns["_tc"] = _tc
        self.sources = {}
        self.items = {}

    def add_file(self, path):
        self.items.update(split_module(path))

    typed = None

    def load(self, name, as_name=None, register=True):
        """lower and define function/method `name` in the namespace"""
        src = self.items[name]
        py = lower_source(src, self.typed)
        self.sources[name] = py
        loc = {}
        exec(compile(py, "<lowered %s>" % name, "exec"), self.ns, loc)
        fn = [v for v in loc.values() if callable(v)][-1]
        if register:
            self.ns[as_name or name.split(".")[-1]] = fn
        return fn

    def make_class(self, clsname, methods, bases=(), register=True):
        d = {}
        for m in methods:
            d[m.split(".")[-1]] = self.load(m, register=register)
        return type(clsname, tuple(bases) or (object,), d)
