"""SSet -- a finite set over a concrete universe whose membership is
symbolic (one z3 Bool per element), so that real checker code using
<, <=, -, |, issubset, difference, `in` runs on "which names an array has"
as a solver variable.  Only iteration concretises (forks per element)."""
import z3

from vf.symx import SBool, ctx, to_bool

_set, _list = set, list


class SSet(object):
    def __init__(self, universe, mem):
        self.universe = tuple(sorted(universe))
        self.mem = dict((u, mem[u]) for u in self.universe)

    @classmethod
    def fresh(cls, prefix, universe):
        return cls(universe, dict((u, z3.Bool("%s:%s" % (prefix, u)))
                                  for u in universe))

    def _m(self, e):
        return self.mem.get(e, z3.BoolVal(False))

    # -- queries that stay symbolic ---------------------------------------
    def __contains__(self, e):
        return bool(SBool(self._m(e)))

    def _sup(self, other, proper):
        other = _set(other)
        allin = z3.And(*[self._m(e) for e in other]) if other else \
            z3.BoolVal(True)
        if not proper:
            return SBool(allin)
        extra = [self.mem[u] for u in self.universe if u not in other]
        return SBool(z3.And(allin, z3.Or(*extra) if extra else
                            z3.BoolVal(False)))

    def __gt__(self, other):          # concrete < self
        return self._sup(other, True)

    def __ge__(self, other):
        return self._sup(other, False)

    def issuperset(self, other):
        return self._sup(other, False)

    def _as(self, other):
        if isinstance(other, SSet):
            return other
        other = _set(other)
        uni = _set(self.universe) | other
        return SSet(uni, dict((u, z3.BoolVal(u in other)) for u in uni))

    def __or__(self, other):
        o = self._as(other)
        uni = _set(self.universe) | _set(o.universe)
        return SSet(uni, dict((u, z3.simplify(z3.Or(self._m(u), o._m(u))))
                              for u in uni))
    __ror__ = __or__
    union = __or__

    def __rsub__(self, other):        # concrete - self
        other = _set(other)
        return SSet(other, dict((u, z3.simplify(z3.Not(self._m(u))))
                                for u in other))

    def __sub__(self, other):
        o = self._as(other)
        return SSet(self.universe,
                    dict((u, z3.simplify(z3.And(self.mem[u],
                                                z3.Not(o._m(u)))))
                         for u in self.universe))

    def keys(self):
        return self

    # -- concretising ---------------------------------------------------------
    def __iter__(self):
        for u in self.universe:
            if bool(SBool(self.mem[u])):
                yield u

    def __len__(self):
        return sum(1 for _ in self)

    def __repr__(self):
        return "SSet(%s)" % ", ".join(self.universe)


class SListView(object):
    """list(SSet) that is only ever concatenated / turned into a set"""

    def __init__(self, s):
        self.s = s

    def __add__(self, other):
        o = other.s if isinstance(other, SListView) else other
        return SListView(self.s | o)

    def __radd__(self, other):
        return SListView(self.s | other)

    def __iter__(self):
        return iter(self.s)

    def __len__(self):
        return len(self.s)


def sym_list(x=()):
    if isinstance(x, SSet):
        return SListView(x)
    if isinstance(x, SListView):
        return x
    return _list(x)


def sym_set(x=()):
    if isinstance(x, SSet):
        return x
    if isinstance(x, SListView):
        return x.s
    return _set(x)


class NameDict(object):
    """`array.properties` / `array.constants`: only the key set matters"""

    def __init__(self, sset):
        self.sset = sset

    def keys(self):
        return self.sset

    def __contains__(self, k):
        return k in self.sset

    def __iter__(self):
        return iter(self.sset)

    def __len__(self):
        return len(self.sset)


class ModelArray(object):
    def __init__(self, name, props, consts=None):
        self.name = name
        self.properties = NameDict(props)
        self.constants = NameDict(consts if consts is not None else
                                  SSet((), {}))
        self.gpu = None
