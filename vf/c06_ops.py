"""C06: the operation language.  A program is (init, [op, ...]); the same
program drives (a) the lowered ParticleArray on model arrays with symbolic
values, (b) the compiled ParticleArray with concrete values (replay) and
(c) the record-list specification `Rec`.

Values are tokens: "r:<name>" a real, "t:<name>" a tag in {0,1,2},
"i:<name>" an int; anything else is a literal.  `Env.val` resolves a token
to a symbolic proxy or, in a replay, to a concrete number.

Each op class has
   valid(spec, aux)    the documented precondition, decided on the spec state
   run(pa, env, fac)   the call on a ParticleArray (lowered or compiled)
   apply(spec, env)    the record-list semantics
   reorders            True if the documented result leaves the order open
   aligns(spec)        True if the call ends with an alignment"""
from vf.pa06 import Rec, chunks, Local, Remote, Ghost, UINT_MAX, BUILTIN


class Env(object):
    def __init__(self, make):
        self.make = make          # token -> value
        self.vals = {}

    def val(self, tok):
        if isinstance(tok, str) and tok[:2] in ("r:", "t:", "i:"):
            if tok not in self.vals:
                self.vals[tok] = self.make(tok)
            return self.vals[tok]
        return tok

    def vals_of(self, toks):
        return [self.val(t) for t in toks]


class Factory(object):
    """how a ParticleArray / LongArray of the implementation under test is
    made (lowered model or compiled class)"""

    def __init__(self, pa_cls, long_array, to_data=list):
        self.pa_cls = pa_cls
        self.long_array = long_array
        self.to_data = to_data

    def longs(self, idx):
        a = self.long_array(len(idx))
        for k, i in enumerate(idx):
            a[k] = i
        return a


def spec_align(spec):
    loc = [r for r in spec.recs if _is(r["tag"][0], Local)]
    oth = [r for r in spec.recs if not _is(r["tag"][0], Local)]
    spec.recs = loc + oth


def _is(v, c):
    """tag comparison; symbolic tags fork the path exactly like the code"""
    return bool(v == c)


# ---------------------------------------------------------------------------

class Init(object):
    """ParticleArray(name, constants=..., **props)"""

    def __init__(self, name, n, props, constants=None, tags=True, label=""):
        # props: {pname: (ctype, stride, default)}; data tokens are derived
        self.name = name
        self.n = n
        self.props = props
        self.constants = constants or {}
        self.tags = tags
        self.label = label or name

    def tokens(self, p, stride, ctype):
        k = "i:" if ctype != "double" and ctype != "float" else "r:"
        return ["%s%s_%s%d_%d" % (k, self.name, p, i, s)
                for i in range(self.n) for s in range(stride)]

    def tag_tokens(self):
        return ["t:%s_tag%d" % (self.name, i) for i in range(self.n)]

    def build(self, env, fac):
        kw = {}
        for p, (ct, st, dflt) in self.props.items():
            d = dict(type=ct, stride=st)
            if dflt is not None:
                d["default"] = env.val(dflt)
            if self.n:
                d["data"] = fac.to_data(
                    env.vals_of(self.tokens(p, st, ct)))
            kw[p] = d
        if self.n and self.tags:
            kw["tag"] = dict(type="int", data=fac.to_data(
                env.vals_of(self.tag_tokens())))
        consts = dict((k, fac.to_data(env.vals_of(v)))
                      for k, v in self.constants.items())
        return fac.pa_cls(name=self.name, constants=consts or None, **kw)

    def spec(self, env):
        s = Rec(self.name)
        for p, (ct, st, dflt) in self.props.items():
            s.props[p] = [ct, st, env.val(dflt) if dflt is not None else 0]
        for i in range(self.n):
            r = s.default_rec()
            for p, (ct, st, dflt) in self.props.items():
                toks = self.tokens(p, st, ct)
                r[p] = tuple(env.vals_of(toks[i * st:(i + 1) * st]))
            if self.tags:
                r["tag"] = (env.val(self.tag_tokens()[i]),)
            s.recs.append(r)
        s.constants = dict((k, env.vals_of(v))
                           for k, v in self.constants.items())
        spec_align(s)
        return s

    def __repr__(self):
        return "Init(%r, %r, %r, constants=%r, tags=%r, label=%r)" % (
            self.name, self.n, self.props, self.constants, self.tags,
            self.label)


class Op(object):
    reorders = False
    returns = None       # "array" if the call returns a particle array

    def valid(self, spec, aux):
        return True


    keeps_alignment = True   # leaves tags, order and count alone
    aligned = False          # set by apply(): the call ended with an alignment

    def __repr__(self):
        d = dict((k, v) for k, v in self.__dict__.items()
                 if not k.startswith("_") and k not in ("aligned", "keeps_alignment"))
        return "%s(%s)" % (type(self).__name__, ", ".join(
            "%s=%r" % kv for kv in sorted(d.items())))


class AddParticles(Op):
    keeps_alignment = False

    def __init__(self, k, props, align=True, tag=None, uid=0):
        self.k, self.props, self.align, self.tag, self.uid = \
            k, list(props), align, tag, uid

    def toks(self, p, st, ct):
        kind = "r:" if ct in ("double", "float") else "i:"
        return ["%sadd%d_%s%d_%d" % (kind, self.uid, p, i, s)
                for i in range(self.k) for s in range(st)]

    def tagtoks(self):
        return ["t:add%d_tag%d" % (self.uid, i) for i in range(self.k)]

    def valid(self, spec, aux):
        return all(p in spec.props for p in self.props)


    def run(self, pa, env, fac, aux):
        kw = {}
        for p in self.props:
            ct, st, _ = self._spec_props[p]
            kw[p] = fac.to_data(env.vals_of(self.toks(p, st, ct)))
        if self.tag:
            kw["tag"] = fac.to_data(env.vals_of(self.tagtoks()))
        return pa.add_particles(align=self.align, **kw)

    def apply(self, spec, env, aux):
        self._spec_props = dict((p, tuple(v)) for p, v in spec.props.items())
        for i in range(self.k):
            r = spec.default_rec()
            for p in self.props:
                ct, st, _ = spec.props[p]
                t = self.toks(p, st, ct)
                r[p] = tuple(env.vals_of(t[i * st:(i + 1) * st]))
            if self.tag:
                r["tag"] = (env.val(self.tagtoks()[i]),)
            spec.recs.append(r)
        self.aligned = bool(self.align and self.k > 0)
        if self.aligned:
            spec_align(spec)


class RemoveParticles(Op):
    reorders = True
    keeps_alignment = False

    def __init__(self, indices, align=True, as_long=False):
        self.indices, self.align, self.as_long = list(indices), align, as_long

    def valid(self, spec, aux):
        return all(0 <= i < spec.n() for i in self.indices) and \
            len(set(self.indices)) == len(self.indices)


    def run(self, pa, env, fac, aux):
        idx = fac.longs(self.indices) if self.as_long else list(self.indices)
        return pa.remove_particles(idx, align=self.align)

    def apply(self, spec, env, aux):
        spec.recs = [r for i, r in enumerate(spec.recs)
                     if i not in set(self.indices)]
        self.aligned = bool(self.align and self.indices)
        if self.aligned:
            spec_align(spec)


class RemoveTagged(Op):
    reorders = True
    keeps_alignment = False

    def __init__(self, tag, align=True):
        self.tag, self.align = tag, align


    def run(self, pa, env, fac, aux):
        return pa.remove_tagged_particles(self.tag, align=self.align)

    def apply(self, spec, env, aux):
        n0 = spec.n()
        spec.recs = [r for r in spec.recs if not _is(r["tag"][0], self.tag)]
        self.aligned = bool(self.align and spec.n() < n0)
        if self.aligned:
            spec_align(spec)


class Extend(Op):
    keeps_alignment = False

    def __init__(self, k):
        self.k = k

    def run(self, pa, env, fac, aux):
        return pa.extend(self.k)

    def apply(self, spec, env, aux):
        for _ in range(max(self.k, 0)):
            spec.recs.append(spec.default_rec())


class AppendParray(Op):
    keeps_alignment = False

    def __init__(self, other="b", align=True, update_constants=False):
        self.other, self.align, self.update_constants = \
            other, align, update_constants

    def valid(self, spec, aux):
        o = aux[self.other][1]
        for p, v in o.props.items():
            if p in spec.props and (spec.props[p][1] != v[1] or
                                    spec.props[p][0] != v[0]):
                return False
        return True


    def run(self, pa, env, fac, aux):
        return pa.append_parray(aux[self.other][0], align=self.align,
                                update_constants=self.update_constants)

    def apply(self, spec, env, aux):
        o = aux[self.other][1]
        self.aligned = False
        if o.n() == 0:
            self.keeps_alignment = True
            return
        self.keeps_alignment = False
        for p, v in o.props.items():
            if p not in spec.props:
                spec.props[p] = list(v)
                for r in spec.recs:
                    r[p] = (v[2],) * v[1]
        for orec in o.recs:
            r = spec.default_rec()
            for p in o.props:
                r[p] = orec[p]
            spec.recs.append(r)
        if self.update_constants:
            for k, v in o.constants.items():
                spec.constants.setdefault(k, list(v))
        self.aligned = bool(self.align)
        if self.align:
            spec_align(spec)


class Extract(Op):
    returns = "array"

    def __init__(self, indices, props=None, dest=None, align=True,
                 as_long=False):
        self.indices, self.props, self.dest, self.align, self.as_long = \
            list(indices), props, dest, align, as_long

    def valid(self, spec, aux):
        if not all(0 <= i < spec.n() for i in self.indices):
            return False
        if self.props is not None and \
                not all(p in spec.props for p in self.props):
            return False
        if self.dest is not None:
            d = aux[self.dest][1]
            for p in (self.props or spec.props):
                if p not in d.props or d.props[p][:2] != spec.props[p][:2]:
                    return False
        return True

    def run(self, pa, env, fac, aux):
        idx = fac.longs(self.indices) if self.as_long else list(self.indices)
        kw = {}
        if self.dest is not None:
            kw["dest_array"] = aux[self.dest][0]
        return pa.extract_particles(idx, align=self.align,
                                    props=self.props, **kw)

    def apply(self, spec, env, aux):
        if self.dest is not None:
            d = aux[self.dest][1]
        else:
            d = spec.clone_empty(
                None if self.props is None else
                list(self.props) + [b[0] for b in BUILTIN
                                    if b[0] not in self.props])
            if self.props is not None:
                # the clone always carries tag/pid/gid with fresh defaults
                for n, t, s, dv in BUILTIN:
                    if n not in self.props:
                        d.props[n] = [t, s, dv]
        names = list(spec.props) if self.props is None else self.props
        for i in self.indices:
            r = d.default_rec()
            for p in names:
                r[p] = spec.recs[i][p]
            d.recs.append(r)
        self._result_aligned = bool(self.align and self.indices)
        if self._result_aligned:
            spec_align(d)
        return d


class AddProperty(Op):
    def __init__(self, name, ctype="double", default=None, data=False,
                 stride=1, uid=0, k=0):
        # k > 0: data for k particles, valid on an array without particles
        # (documented: the other properties are resized to the new length)
        self.name, self.ctype, self.default, self.data, self.stride, \
            self.uid, self.k = name, ctype, default, data, stride, uid, k

    def toks(self, n):
        kind = "r:" if self.ctype in ("double", "float") else "i:"
        return ["%sprop%d_%s%d_%d" % (kind, self.uid, self.name, i, s)
                for i in range(n) for s in range(self.stride)]

    def valid(self, spec, aux):
        if self.name in spec.constants:
            return False
        if self.name in spec.props:
            # re-adding an existing property: same type and stride only
            ct, st, _ = spec.props[self.name]
            if (ct, st) != (self.ctype, self.stride):
                return False
        if self.data and (spec.n() == 0) != (self.k > 0):
            return False
        if self.k > 0 and self.name == "tag":
            return False
        return True

    def run(self, pa, env, fac, aux):
        kw = dict(type=self.ctype, stride=self.stride)
        if self.default is not None:
            kw["default"] = env.val(self.default)
        if self.data:
            kw["data"] = fac.to_data(env.vals_of(self.toks(self._n)))
        return pa.add_property(self.name, **kw)

    def apply(self, spec, env, aux):
        if self.k > 0:
            # no particles yet: the array grows to k default particles
            for _ in range(self.k):
                spec.recs.append(spec.default_rec())
        self._n = spec.n()
        new = self.name not in spec.props
        if self.default is not None:
            dflt = env.val(self.default)
        elif new:
            dflt = 0
        else:
            dflt = spec.props[self.name][2]
        spec.props[self.name] = [self.ctype, self.stride, dflt]
        t = self.toks(spec.n())
        for i, r in enumerate(spec.recs):
            if self.data:
                r[self.name] = tuple(env.vals_of(
                    t[i * self.stride:(i + 1) * self.stride]))
            elif new:
                r[self.name] = (dflt,) * self.stride


class RemoveProperty(Op):
    def __init__(self, name):
        self.name = name

    def valid(self, spec, aux):
        return self.name not in [b[0] for b in BUILTIN]

    def run(self, pa, env, fac, aux):
        return pa.remove_property(self.name)

    def apply(self, spec, env, aux):
        if self.name in spec.props:
            del spec.props[self.name]
            for r in spec.recs:
                del r[self.name]
        if self.name in spec.out:
            spec.out.remove(self.name)


class AddConstant(Op):
    def __init__(self, name, n=2, uid=0):
        self.name, self.n, self.uid = name, n, uid

    def toks(self):
        return ["r:const%d_%s%d" % (self.uid, self.name, i)
                for i in range(self.n)]

    def valid(self, spec, aux):
        return self.name not in spec.constants and \
            self.name not in spec.props

    def run(self, pa, env, fac, aux):
        return pa.add_constant(self.name, fac.to_data(
            env.vals_of(self.toks())))

    def apply(self, spec, env, aux):
        spec.constants[self.name] = env.vals_of(self.toks())


class Resize(Op):
    """resize(size): shrinking truncates, growing leaves the new slots
    unspecified (the spec adopts whatever the implementation holds)"""

    keeps_alignment = False

    def __init__(self, delta):
        self.delta = delta

    def valid(self, spec, aux):
        return spec.n() + self.delta >= 0

    def run(self, pa, env, fac, aux):
        return pa.resize(self._size)

    def apply(self, spec, env, aux):
        self._size = spec.n() + self.delta
        if self.delta <= 0:
            spec.recs = spec.recs[:self._size]
        else:
            for _ in range(self.delta):
                spec.recs.append(None)      # adopted by the comparison


class Align(Op):
    reorders = True
    aligned = True


    def run(self, pa, env, fac, aux):
        return pa.align_particles()

    def apply(self, spec, env, aux):
        spec_align(spec)


class SetTag(Op):
    keeps_alignment = False

    def __init__(self, tag, indices):
        self.tag, self.indices = tag, list(indices)

    def valid(self, spec, aux):
        return all(0 <= i < spec.n() for i in self.indices)

    def run(self, pa, env, fac, aux):
        return pa.set_tag(self.tag, fac.longs(self.indices))

    def apply(self, spec, env, aux):
        for i in self.indices:
            spec.recs[i]["tag"] = (self.tag,)


class SetProp(Op):
    """set(p=values) with an array of exactly the present length"""

    def __init__(self, name, uid=0):
        self.name, self.uid = name, uid

    def valid(self, spec, aux):
        return self.name in spec.props

    def toks(self, n, ct, st):
        kind = "r:" if ct in ("double", "float") else (
            "t:" if self.name == "tag" else "i:")
        return ["%sset%d_%s%d_%d" % (kind, self.uid, self.name, i, s)
                for i in range(n) for s in range(st)]

    def run(self, pa, env, fac, aux):
        return pa.set(**{self.name: fac.to_data(env.vals_of(self._t))})

    def apply(self, spec, env, aux):
        ct, st, _ = spec.props[self.name]
        self.keeps_alignment = self.name != "tag"
        self._t = self.toks(spec.n(), ct, st)
        for i, r in enumerate(spec.recs):
            r[self.name] = tuple(env.vals_of(self._t[i * st:(i + 1) * st]))


class EmptyClone(Op):
    returns = "array"

    def __init__(self, props=None):
        self.props = props

    def valid(self, spec, aux):
        return self.props is None or all(p in spec.props for p in self.props)

    def run(self, pa, env, fac, aux):
        return pa.empty_clone(props=self.props)

    def apply(self, spec, env, aux):
        d = spec.clone_empty(self.props)
        if self.props is not None:
            for n, t, s, dv in BUILTIN:
                if n not in self.props:
                    d.props[n] = [t, s, dv]
        return d


class CopyProperties(Op):
    keeps_alignment = False

    """copy_properties(source, start, end): self[start:end] takes the first
    end-start particles of source, for every common property"""

    def __init__(self, other="b", start=-1, end=-1):
        self.other, self.start, self.end = other, start, end

    def _range(self, spec, o):
        if self.end < 0:
            if self.start < 0:
                return (0, spec.n()) if o.n() == spec.n() else None
            if self.start > spec.n() - 1 or spec.n() - self.start > o.n():
                return None
            return (self.start, spec.n())
        if self.start < 0 or self.start > spec.n() - 1 or \
                self.end > spec.n() or self.start > self.end or \
                self.end - self.start > o.n():
            return None
        return (self.start, self.end)

    def valid(self, spec, aux):
        o = aux[self.other][1]
        if self._range(spec, o) is None:
            return False
        for p, v in o.props.items():
            if p in spec.props and spec.props[p][:2] != v[:2]:
                return False
        return True

    def run(self, pa, env, fac, aux):
        return pa.copy_properties(aux[self.other][0], self.start, self.end)

    def apply(self, spec, env, aux):
        o = aux[self.other][1]
        si, ei = self._range(spec, o)
        for p in o.props:
            if p in spec.props:
                for j, i in enumerate(range(si, ei)):
                    spec.recs[i][p] = o.recs[j][p]


class CopyOver(Op):
    def __init__(self, mapping):
        self.mapping = dict(mapping)

    def valid(self, spec, aux):
        for a, b in self.mapping.items():
            if a not in spec.props or b not in spec.props:
                return False
            if spec.props[a][0] != "double" or spec.props[b][0] != "double":
                return False
            if spec.props[a][1] != spec.props[b][1]:
                return False
        return True

    def run(self, pa, env, fac, aux):
        return pa.copy_over_properties(dict(self.mapping))

    def apply(self, spec, env, aux):
        for a, b in self.mapping.items():
            for r in spec.recs:
                r[b] = r[a]


class SetToZero(Op):
    def __init__(self, props):
        self.props = list(props)

    def valid(self, spec, aux):
        return all(p in spec.props and spec.props[p][0] == "double"
                   for p in self.props)

    def run(self, pa, env, fac, aux):
        return pa.set_to_zero(list(self.props))

    def apply(self, spec, env, aux):
        for p in self.props:
            for r in spec.recs:
                r[p] = (0,) * spec.props[p][1]


class SetPid(Op):
    def __init__(self, pid):
        self.pid = pid

    def run(self, pa, env, fac, aux):
        return pa.set_pid(self.pid)

    def apply(self, spec, env, aux):
        for r in spec.recs:
            r["pid"] = (self.pid,)


class EnsureProperties(Op):
    def __init__(self, other="b", props=None):
        self.other, self.props = other, props

    def valid(self, spec, aux):
        o = aux[self.other][1]
        return self.props is None or all(p in o.props for p in self.props)

    def run(self, pa, env, fac, aux):
        return pa.ensure_properties(aux[self.other][0], self.props)

    def apply(self, spec, env, aux):
        o = aux[self.other][1]
        for p in (self.props or list(o.props)):
            if p not in spec.props:
                spec.props[p] = list(o.props[p])
                for r in spec.recs:
                    r[p] = (o.props[p][2],) * o.props[p][1]


class SetOutput(Op):
    def __init__(self, props, add=False):
        self.props, self.add = list(props), add

    def valid(self, spec, aux):
        return all(p in spec.props or p in spec.constants
                   for p in self.props)

    def run(self, pa, env, fac, aux):
        if self.add:
            return pa.add_output_arrays(list(self.props))
        return pa.set_output_arrays(list(self.props))

    def apply(self, spec, env, aux):
        if self.add:
            spec.out = sorted(set(spec.out) | set(self.props))
        else:
            spec.out = list(self.props)


class Pickle(Op):
    """copy.deepcopy / pickle round trip = cls(*args).__setstate__(state)
    with (cls, args, state) = __reduce__(); the receiver is replaced"""
    returns = "self"

    def run(self, pa, env, fac, aux):
        return fac.pickle_roundtrip(pa)

    def apply(self, spec, env, aux):
        spec.out = []         # the output list is not part of the pickled
                              # state (outside the claim): starts empty
