"""Evaluate real pysph equation methods for one (destination, source)
particle pair on symbolic values, with the real precomputed-symbol code
blocks of pysph/sph/equation.py and an abstract radial kernel."""
import inspect

import z3

from vf.symx import (SReal, real, to_real, sym_sqrt, simp, ctx, MATH_TABLE,
                     patched_globals)


class LazyArr(object):
    """array of one particle's property: entries are created on first read
    as named symbols (or `init` if given)."""

    def __init__(self, prefix, init=None):
        self.prefix = prefix
        self.init = init
        self.data = {}
        self.written = set()

    def __getitem__(self, i):
        i = int(i)
        if i not in self.data:
            self.data[i] = self.init if self.init is not None else \
                real("%s_%d" % (self.prefix, i))
        return self.data[i]

    def __setitem__(self, i, v):
        i = int(i)
        self.data[i] = v
        self.written.add(i)

    def copy(self):
        c = LazyArr(self.prefix, self.init)
        c.data = dict(self.data)
        return c


class Particle(object):
    """symbolic particle: props[name] -> LazyArr"""

    def __init__(self, tag, zero=()):
        self.tag = tag
        self.zero = set(zero)
        self.props = {}

    def arr(self, name):
        if name not in self.props:
            self.props[name] = LazyArr(
                "%s_%s" % (self.tag, name),
                0.0 if name in self.zero else None)
        return self.props[name]

    def fresh_copy(self):
        p = Particle(self.tag, self.zero)
        return p


_W = z3.Function("W", z3.RealSort(), z3.RealSort(), z3.RealSort())
_G = z3.Function("G", z3.RealSort(), z3.RealSort(), z3.RealSort())
_DWDQ = z3.Function("DWDQ", z3.RealSort(), z3.RealSort(), z3.RealSort())
_GH = z3.Function("GRADH", z3.RealSort(), z3.RealSort(), z3.RealSort())


def canon(x):
    """canonical form of an uninterpreted-function argument, so that
    formally equal arguments give the same application"""
    return z3.simplify(to_real(x), som=True, sort_sums=True)


class RadialKernel(object):
    """Abstract kernel justified by C08: W depends on (rij, h) only and
    gradient = G(rij, h) * xij with a scalar G."""
    radius_scale = 2.0

    def kernel(self, xij, rij, h):
        return SReal(_W(canon(rij), canon(h)))

    def gradient(self, xij, rij, h, grad):
        g = SReal(_G(canon(rij), canon(h)))
        grad[0] = g * xij[0]
        grad[1] = g * xij[1]
        grad[2] = g * xij[2]

    def dwdq(self, rij, h):
        return SReal(_DWDQ(canon(rij), canon(h)))

    def gradient_h(self, xij, rij, h):
        return SReal(_GH(canon(rij), canon(h)))

    def get_deltap(self):
        return real("DELTAP")


def make_namespace(dest, src, kernel, extra=None):
    """names visible to precomputed code and equation methods"""
    ns = _NS(dest, src)
    ns.update(dict(d_idx=0, s_idx=0, t=real("t"), dt=real("dt"),
                   KERNEL=kernel.kernel, GRADIENT=kernel.gradient,
                   DWDQ=kernel.dwdq, GRADH=kernel.gradient_h,
                   DELTAP=kernel.get_deltap(), SPH_KERNEL=kernel,
                   sqrt=sym_sqrt))
    for k in ("abs", "max", "min", "exp", "pow", "fabs", "sin", "cos", "log",
              "floor", "ceil", "atan2", "tanh"):
        ns[k] = MATH_TABLE[k]
    ns["M_PI"] = 3.141592653589793
    if extra:
        ns.update(extra)
    return ns


class _NS(dict):
    def __init__(self, dest, src):
        dict.__init__(self)
        self.dest, self.src = dest, src

    def __missing__(self, k):
        if k.startswith("d_"):
            v = self.dest.arr(k[2:])
        elif k.startswith("s_") and self.src is not None:
            v = self.src.arr(k[2:])
        else:
            raise KeyError(k)
        self[k] = v
        return v


def eval_precomputed(group, ns):
    """run the real precomputed code blocks of the group in its order"""
    for name, cb in group.precomputed.items():
        default = cb.context[name]
        if isinstance(default, (list, tuple)):
            ns[name] = [0.0] * len(default)
        code = cb.code
        exec(compile(code, "<precomputed %s>" % name, "exec"), ns)


def call(eq, meth, ns):
    fn = getattr(eq, meth)
    args = inspect.getfullargspec(fn).args[1:]
    vals = []
    for a in args:
        try:
            vals.append(ns[a])
        except KeyError:
            raise KeyError("argument %s of %s.%s is not modelled" %
                           (a, type(eq).__name__, meth))
    return fn(*vals)
