"""Model objects on which the lowered (cy2py) NNPS / domain-manager code of
pysph/base runs: cyarray arrays holding proxies, a record particle array
with the operations nnps_base.pyx uses, and the assembly of a
LinkedListNNPS object from lowered methods."""
import os
import types

import numpy

from vf import cy2py, common
from vf.symx import MATH_TABLE, is_sym, sym_min, sym_max

UINT_MAX = 4294967295
Local, Remote, Ghost = 0, 1, 2


class SymArray(object):
    """cyarray.carray.BaseArray stand-in"""

    def __init__(self, n=0, fill=0.0):
        self.data = [fill] * int(n)
        self.minimum = 0.0
        self.maximum = 0.0

    @property
    def length(self):
        return len(self.data)

    @length.setter
    def length(self, n):
        self.data = self.data[:int(n)]

    def reserve(self, n):
        pass
    c_reserve = reserve

    def resize(self, n):
        n = int(n)
        self.data = (self.data + [0] * n)[:n]
    c_resize = resize

    def reset(self):
        self.data = []
    c_reset = reset

    def append(self, v):
        self.data.append(v)
    c_append = append

    def c_set_view(self, ptr, length=None):
        if length is None:
            return self.set_data(ptr)
        self.data = [ptr[i] for i in range(int(length))]

    def set_data(self, seq):
        self.data = list(seq)

    def get_npy_array(self):
        a = numpy.empty(len(self.data), dtype=object)
        a[:] = self.data
        return a

    def update_min_max(self):
        if self.data:
            self.minimum = sym_min(self.data) if len(self.data) > 1 \
                else self.data[0]
            self.maximum = sym_max(self.data) if len(self.data) > 1 \
                else self.data[0]

    def c_align_array(self, new_indices, stride=1):
        idx = [int(i) for i in new_indices.data]
        old = list(self.data)
        st = int(stride)
        for i, j in enumerate(idx):
            self.data[i * st:(i + 1) * st] = old[j * st:(j + 1) * st]
    align_array = c_align_array

    def copy_values(self, indices, dest, stride=1, start=0):
        for k, i in enumerate(indices.data):
            for s in range(stride):
                dest.data[start + k * stride + s] = \
                    self.data[int(i) * stride + s]

    def extend(self, arr):
        self.data.extend(list(arr))

    def __getitem__(self, i):
        if isinstance(i, slice):
            return self.data[i]
        return self.data[int(i)]

    def __setitem__(self, i, v):
        if isinstance(i, slice):
            idx = range(*i.indices(len(self.data)))
            vals = list(v) if hasattr(v, "__len__") else [v] * len(idx)
            for k, j in enumerate(idx):
                self.data[j] = vals[k]
            return
        self.data[int(i)] = v

    def __len__(self):
        return len(self.data)


class RecPA(object):
    """record particle array for the lowered NNPS / domain code"""
    gpu = None

    def __init__(self, name="", props=None, stride=None, constants=None,
                 **kw):
        self.name = name
        self.properties = {}
        self.stride = dict(stride or {})
        self.constants = dict(constants or {})
        self.default_values = {}
        if props is None:
            # ParticleArray(x=None, y=None, z=None): an empty array with the
            # default bookkeeping properties
            props = dict((k, []) for k in list(kw) + ["tag", "gid", "pid"])
        for k, vals in props.items():
            a = SymArray()
            a.set_data(vals)
            self.properties[k] = a
            self.default_values[k] = 0.0
        self.num_real_particles = 0
        self.align_particles()

    def get_number_of_particles(self, real=False):
        if real:
            return self.num_real_particles
        return len(self.properties["tag"].data)

    def __bool__(self):
        return True

    def get_carray(self, name):
        return self.properties[name]

    def __getattr__(self, name):
        p = self.__dict__.get("properties", {})
        if name in p:
            return p[name]
        raise AttributeError(name)

    def set_num_real_particles(self, n):
        self.num_real_particles = int(n)

    def particles(self):
        n = self.get_number_of_particles()
        out = []
        for i in range(n):
            rec = {}
            for k, a in self.properties.items():
                st = self.stride.get(k, 1)
                rec[k] = tuple(a.data[i * st:(i + 1) * st])
            out.append(rec)
        return out

    def align_particles(self):
        """Local-tagged particles first (stable)"""
        tags = [int(t) for t in self.properties["tag"].data]
        order = [i for i, t in enumerate(tags) if t == Local] + \
            [i for i, t in enumerate(tags) if t != Local]
        idx = SymArray()
        idx.set_data(order)
        for k, a in self.properties.items():
            a.c_align_array(idx, self.stride.get(k, 1))
        self.num_real_particles = sum(1 for t in tags if t == Local)
        return 0

    def remove_tagged_particles(self, tag):
        tags = [int(t) for t in self.properties["tag"].data]
        keep = [i for i, t in enumerate(tags) if t != tag]
        idx = SymArray()
        idx.set_data(keep)
        for k, a in self.properties.items():
            st = self.stride.get(k, 1)
            a.c_align_array(idx, st)
            a.data = a.data[:len(keep) * st]
        self.align_particles()

    def extract_particles(self, indices, dest_array=None, align=True,
                          props=None):
        idx = [int(i) for i in (indices.data if hasattr(indices, "data")
                                else indices)]
        names = list(self.properties) if props is None else list(props)
        if dest_array is not None:
            # append the selected particles to dest_array (only `names`)
            if not idx:
                return dest_array
            start = dest_array.get_number_of_particles()
            dest_array.resize(start + len(idx))
            for k in names:
                st = self.stride.get(k, 1)
                src = self.properties[k].data
                dst = dest_array.properties[k].data      # KeyError if absent
                for q, i in enumerate(idx):
                    dst[(start + q) * st:(start + q + 1) * st] = \
                        src[i * st:(i + 1) * st]
            if align:
                dest_array.align_particles()
            return dest_array
        for extra in ("tag",):
            if extra not in names:
                names.append(extra)
        vals = {}
        for k in names:
            st = self.stride.get(k, 1)
            a = self.properties[k].data
            vals[k] = [a[i * st + s] for i in idx for s in range(st)]
        st = dict((k, v) for k, v in self.stride.items() if k in names)
        new = RecPA.__new__(RecPA)
        new.name = self.name
        new.properties = {}
        new.stride = st
        new.constants = {}
        new.default_values = {}
        for k, v in vals.items():
            arr = SymArray()
            arr.set_data(v)
            new.properties[k] = arr
        new.num_real_particles = 0
        return new

    def empty_clone(self, props=None):
        names = list(self.properties) if props is None else list(props)
        for extra in ("tag", "gid", "pid"):
            if extra in self.properties and extra not in names:
                names.append(extra)
        new = RecPA(self.name, dict((k, []) for k in names),
                    stride=dict((k, v) for k, v in self.stride.items()
                                if k in names))
        return new

    def resize(self, n):
        n = int(n)
        for k, a in self.properties.items():
            st = self.stride.get(k, 1)
            a.data = (a.data + [self.default_values.get(k, 0.0)] * n * st)[
                :n * st]
        self.num_real_particles = min(self.num_real_particles, n)

    def ensure_properties(self, src, props=None):
        names = list(src.properties) if props is None else list(props)
        n = self.get_number_of_particles()
        for k in names:
            if k not in self.properties:
                st = src.stride.get(k, 1)
                a = SymArray()
                a.set_data([0.0] * n * st)
                self.properties[k] = a
                if st != 1:
                    self.stride[k] = st

    def append_parray(self, other, align=True, update_constants=False):
        n_old = self.get_number_of_particles()
        n_new = other.get_number_of_particles()
        if n_new == 0:
            return 0
        for k in other.properties:
            if k not in self.properties:
                st = other.stride.get(k, 1)
                a = SymArray()
                a.set_data([0.0] * n_old * st)
                self.properties[k] = a
                if st != 1:
                    self.stride[k] = st
        for k, a in self.properties.items():
            st = self.stride.get(k, 1)
            if k in other.properties:
                a.data.extend(other.properties[k].data)
            else:
                a.data.extend([self.default_values.get(k, 0.0)] * n_new * st)
        if align:
            self.align_particles()
        return 0


class Wrapper(object):
    """NNPSParticleArrayWrapper"""

    def __init__(self, pa):
        self.pa = pa
        self.name = pa.name
        self.rebind()

    def rebind(self):
        for k in ("x", "y", "z", "h", "gid", "tag"):
            setattr(self, k, self.pa.properties[k])

    def get_number_of_particles(self):
        return self.pa.get_number_of_particles()

    def remove_tagged_particles(self, tag):
        self.pa.remove_tagged_particles(tag)


class _NP(object):
    """numpy as seen by the lowered code"""

    @staticmethod
    def finfo(t):
        return numpy.finfo(float)

    @staticmethod
    def asarray(x, *a, **k):
        return list(x)

    def __getattr__(self, n):
        return getattr(numpy, n)


def base_module():
    b = os.path.join(common.REPO, "pysph", "base")
    M = cy2py.Module(extra=dict(
        UINT_MAX=UINT_MAX, fmax=MATH_TABLE["max"], fmin=MATH_TABLE["min"],
        PyList_GetItem=lambda l, i: l[int(i)], np=_NP(),
        cPoint_new=lambda x, y, z: types.SimpleNamespace(x=x, y=y, z=z),
        cIntPoint_new=lambda x, y, z: types.SimpleNamespace(x=x, y=y, z=z),
        cIntPoint=lambda x=0, y=0, z=0: types.SimpleNamespace(x=x, y=y, z=z),
        Local=Local, Remote=Remote, Ghost=Ghost,
        LongArray=SymArray, UIntArray=SymArray, DoubleArray=SymArray,
        IntArray=SymArray, ParticleArray=RecPA))
    M.ns["arange_uint"] = _arange
    M.ns["print"] = lambda *a, **k: None
    for f in ("nnps_base.pxd", "nnps_base.pyx", "linked_list_nnps.pyx",
              "z_order_nnps.pyx", "stratified_sfc_nnps.pyx",
              "octree_nnps.pyx"):
        M.add_file(os.path.join(b, f))
    for fn in ("norm2", "real_to_int", "find_cell_id_raw", "flatten_raw",
               "flatten", "get_valid_cell_index", "find_cell_id"):
        M.load(fn)
    return M


def _arange(start, stop=-1):
    a = SymArray()
    if stop == -1:
        a.set_data(list(range(int(start))))
    else:
        a.set_data(list(range(int(start), int(stop))))
    return a


LL_METHODS = [
    "NNPSBase.get_nearest_particles", "NNPS.get_nearest_neighbors",
    "NNPSBase.get_nearest_particles_no_cache", "NNPSBase.set_context:base",
    "NNPS.update", "NNPS._compute_bounds", "NNPS.spatially_order_particles",
    "LinkedListNNPS._bin", "LinkedListNNPS._get_number_of_cells",
    "LinkedListNNPS._count_occupied_cells", "LinkedListNNPS._refresh",
    "LinkedListNNPS._get_flattened_cell_index",
    "LinkedListNNPS._get_valid_cell_index",
    "LinkedListNNPS.find_nearest_neighbors",
    "LinkedListNNPS.get_spatially_ordered_indices",
    "LinkedListNNPS.set_context",
]


def linked_list(M, pas, dim, radius_scale, cell_size, hmin=None):
    """LinkedListNNPS object (no cache) over lowered methods"""
    d = {}
    for m in LL_METHODS:
        name = m.split(":")[0]
        fn = M.load(name)
        key = name.split(".")[-1]
        if m.endswith(":base"):
            d["_base_set_context"] = fn
        else:
            d[key] = fn
    d["_sort_neighbors"] = lambda self, nbrs, length, gids: \
        sort_neighbors_model(self, nbrs, length, gids)
    C = type("LinkedListNNPS", (object,), d)
    # LinkedListNNPS.set_context calls NNPS.set_context(self, ...)
    M.ns["NNPS"] = types.SimpleNamespace(set_context=d["_base_set_context"])
    o = C.__new__(C)
    o.dim = dim
    o.narrays = len(pas)
    o.particles = list(pas)
    o.pa_wrappers = [Wrapper(p) for p in pas]
    o.radius_scale = radius_scale
    o.cell_size = cell_size
    o.hmin = hmin
    o.xmin, o.xmax = SymArray(3), SymArray(3)
    o.ncells_per_dim = SymArray(3, 0)
    o.n_cells = 0
    o.heads = [SymArray() for _ in pas]
    o.nexts = [SymArray() for _ in pas]
    o.use_cache = False
    o.cache = [None] * (len(pas) ** 2)
    o.sort_gids = False
    o.cell_shifts = SymArray()
    o.cell_shifts.set_data([-1, 0, 1])
    o._last_domain_size = 0.0
    o.src_index = o.dst_index = 0
    o.current_cache = None
    o.src = o.dst = o.next = o.head = None     # C: NULL until set_context
    o.domain = types.SimpleNamespace(manager=types.SimpleNamespace(
        cell_size=cell_size, hmin=hmin))
    return o


# ---------------------------------------------------------------------------
# SpatialHashNNPS: the pyx-level logic is lowered, the C++ HashTable of
# spatial_hash.h is environment: by contract a map from exact cell
# coordinates to (indices in insertion order, largest h)

import operator


class _Vec(list):
    def size(self):
        return len(self)


class _VecPtr(object):
    def __init__(self, v):
        self.v = v

    def __getitem__(self, i):
        assert i == 0
        return self.v

    def size(self):
        return len(self.v)


class HashEntry(object):
    def __init__(self, idx, h, i, j, k):
        self.indices = _Vec([idx])
        self.h_max = h
        self.c_x, self.c_y, self.c_z = i, j, k

    def get_indices(self):
        return _VecPtr(self.indices)

    def add(self, idx, h):
        self.indices.append(idx)
        self.h_max = sym_max(self.h_max, h)


class HashTable(object):
    def __init__(self, table_size=0):
        self.table_size = table_size
        self.d = {}

    @staticmethod
    def _key(i, j, k):
        return (operator.index(i), operator.index(j), operator.index(k))

    def add(self, i, j, k, idx, h):
        key = self._key(i, j, k)
        if key in self.d:
            self.d[key].add(idx, h)
        else:
            self.d[key] = HashEntry(idx, h, *key)

    def get(self, i, j, k):
        return self.d.get(self._key(i, j, k))


SH_METHODS = [
    "NNPSBase.get_nearest_particles", "NNPS.get_nearest_neighbors",
    "NNPSBase.get_nearest_particles_no_cache", "NNPSBase.set_context:base",
    "NNPS.update", "NNPS._compute_bounds",
    "SpatialHashNNPS.set_context", "SpatialHashNNPS.find_nearest_neighbors",
    "SpatialHashNNPS._add_to_hashtable", "SpatialHashNNPS._neighbor_boxes",
    "SpatialHashNNPS._bin",
]


def spatial_hash(M, pas, dim, radius_scale, cell_size, hmin=None,
                 sort_gids=False):
    b = os.path.join(common.REPO, "pysph", "base")
    if "SpatialHashNNPS._bin" not in M.items:
        M.add_file(os.path.join(b, "spatial_hash_nnps.pyx"))
    M.ns["NULL"] = None
    d = {}
    for m in SH_METHODS:
        name = m.split(":")[0]
        fn = M.load(name)
        if m.endswith(":base"):
            d["_base_set_context"] = fn
        else:
            d[name.split(".")[-1]] = fn

    def _refresh(self):
        # `del` / `new HashTable(table_size)` per array
        self.hashtable = [HashTable(self.table_size)
                          for _ in range(self.narrays)]
        self.current_hash = self.hashtable[self.src_index]
    d["_refresh"] = _refresh
    d["_sort_neighbors"] = sort_neighbors_model
    C = type("SpatialHashNNPS", (object,), d)
    M.ns["NNPS"] = types.SimpleNamespace(set_context=d["_base_set_context"])
    o = C.__new__(C)
    _nnps_common(o, pas, dim, radius_scale, cell_size, hmin, sort_gids)
    o.table_size = 131072
    o.radius_scale2 = radius_scale * radius_scale
    o.hashtable = [HashTable(o.table_size) for _ in pas]
    o.current_hash = None
    o.dst = o.src = None
    return o


ESH_METHODS = [
    "NNPSBase.get_nearest_particles", "NNPS.get_nearest_neighbors",
    "NNPSBase.get_nearest_particles_no_cache", "NNPSBase.set_context:base",
    "NNPS.update", "NNPS._compute_bounds",
    "ExtendedSpatialHashNNPS.set_context",
    "ExtendedSpatialHashNNPS.find_nearest_neighbors",
    "ExtendedSpatialHashNNPS._add_to_hashtable",
    "ExtendedSpatialHashNNPS._h_mask_approx",
    "ExtendedSpatialHashNNPS._h_mask_exact",
    "ExtendedSpatialHashNNPS._neighbor_boxes",
    "ExtendedSpatialHashNNPS._bin",
]


def extended_spatial_hash(M, pas, dim, radius_scale, cell_size, hmin=None,
                          sort_gids=False, H=3, approximate=False):
    b = os.path.join(common.REPO, "pysph", "base")
    if "ExtendedSpatialHashNNPS._bin" not in M.items:
        M.add_file(os.path.join(b, "spatial_hash_nnps.pyx"))
    M.ns.update(NULL=None, malloc=lambda n: [0] * int(n),
                free=lambda p: None, ceil=MATH_TABLE["ceil"],
                abs=MATH_TABLE["abs"])
    d = {}
    for m in ESH_METHODS:
        name = m.split(":")[0]
        fn = M.load(name)
        if m.endswith(":base"):
            d["_base_set_context"] = fn
        else:
            d[name.split(".")[-1]] = fn

    def _refresh(self):
        self.hashtable = [HashTable(self.table_size)
                          for _ in range(self.narrays)]
        self.current_hash = self.hashtable[self.src_index]
    d["_refresh"] = _refresh
    d["_sort_neighbors"] = sort_neighbors_model
    C = type("ExtendedSpatialHashNNPS", (object,), d)
    M.ns["NNPS"] = types.SimpleNamespace(set_context=d["_base_set_context"])
    o = C.__new__(C)
    _nnps_common(o, pas, dim, radius_scale, cell_size, hmin, sort_gids)
    o.table_size = 131072
    o.radius_scale2 = radius_scale * radius_scale
    o.hashtable = [HashTable(o.table_size) for _ in pas]
    o.current_hash = None
    o.H = H
    o.approximate = approximate
    o.h_sub = 0.0
    return o


def _nnps_common(o, pas, dim, radius_scale, cell_size, hmin, sort_gids):
    o.dim = dim
    o.narrays = len(pas)
    o.particles = list(pas)
    o.pa_wrappers = [Wrapper(p) for p in pas]
    o.radius_scale = radius_scale
    o.cell_size = cell_size
    o.hmin = hmin
    o.xmin, o.xmax = SymArray(3), SymArray(3)
    o.use_cache = False
    o.cache = [None] * (len(pas) ** 2)
    o.sort_gids = sort_gids
    o._last_domain_size = 0.0
    o.src_index = o.dst_index = 0
    o.current_cache = None
    o.src = o.dst = o.next = o.head = None     # C: NULL until set_context
    o.domain = types.SimpleNamespace(manager=types.SimpleNamespace(
        cell_size=cell_size, hmin=hmin))


def sort_neighbors_model(self, nbrs, length, gids):
    """NNPS._sort_neighbors (std::sort over a C++ vector, not lowered): the
    `length` entries starting at `nbrs` are sorted by gid, or by index when
    the gids are the invalid UINT_MAX of a serial run"""
    length = int(length)
    if length == 0:
        return
    vals = [int(nbrs[i]) for i in range(length)]
    if int(gids[0]) == UINT_MAX:
        vals.sort()
    else:
        vals.sort(key=lambda v: (int(gids[v]), v))
    for i, v in enumerate(vals):
        nbrs[i] = v


CACHE_METHODS = ["NeighborCache.get_neighbors_raw",
                 "NeighborCache.get_neighbors",
                 "NeighborCache.find_all_neighbors", "NeighborCache.update",
                 "NeighborCache._update_last_avg_nbr_size",
                 "NeighborCache._find_neighbors"]


def enable_cache(M, nnps):
    """what NNPS.__init__(cache=True) sets up"""
    nnps.use_cache = True
    nnps.cache = [neighbor_cache(M, nnps, d, s_)
                  for d in range(nnps.narrays) for s_ in range(nnps.narrays)]


def neighbor_cache(M, nnps, dst_index, src_index):
    """NeighborCache over lowered methods (one thread)"""
    d = dict((m.split(".")[-1], M.load(m)) for m in CACHE_METHODS)
    C = type("NeighborCache", (object,), d)
    o = C.__new__(C)
    o._dst_index, o._src_index, o._nnps = dst_index, src_index, nnps
    o._particles = nnps.particles
    o._narrays = nnps.narrays
    o._n_threads = 1
    n_p = nnps.particles[dst_index].get_number_of_particles()
    o._cached = SymArray(n_p, 0)
    o._last_avg_nbr_size = 10
    o._start_stop = SymArray()
    o._pid_to_tid = SymArray()
    arr = SymArray()
    o._neighbor_arrays = [arr]
    o._neighbors = [arr]
    return o
