"""Record-list model of pysph.base.particle_array.ParticleArray holding
symbolic values (numpy object arrays).  Only what the units under test use;
its conformance to the real class is C06's subject."""
import numpy


class PAModel(object):
    gpu = None
    backend = "cython"

    def __init__(self, name, n=0, props=(), defaults=None):
        self.__dict__["name"] = name
        self.__dict__["properties"] = {}
        self.__dict__["constants"] = {}
        self.__dict__["stride"] = {}
        self.__dict__["default_values"] = dict(defaults or {})
        self.__dict__["n"] = n
        for p in props:
            self.add_property(p)

    def add_property(self, name, default=0.0, data=None, stride=1, type=None):
        a = numpy.empty(self.n * stride, dtype=object)
        a[:] = default
        if data is not None:
            a[:] = list(data)
        self.properties[name] = a
        self.default_values[name] = default
        if stride != 1:
            self.stride[name] = stride

    def get_number_of_particles(self, real=False):
        return self.n

    @property
    def num_real_particles(self):
        return self.n

    def __getattr__(self, name):
        props = self.__dict__.get("properties", {})
        if name in props:
            return props[name]
        consts = self.__dict__.get("constants", {})
        if name in consts:
            return consts[name]
        raise AttributeError(name)

    def get(self, name, only_real_particles=True):
        return self.properties[name]

    def get_carray(self, name):
        return self.properties[name]

    def extend(self, k):
        if k <= 0:
            return
        for key, a in list(self.properties.items()):
            st = self.stride.get(key, 1)
            b = numpy.empty((self.n + k) * st, dtype=object)
            b[:self.n * st] = a
            b[self.n * st:] = self.default_values[key]
            self.properties[key] = b
        self.__dict__["n"] = self.n + k

    def extract_particles(self, indices, dest_array=None, align=True,
                          props=None):
        indices = [int(i) for i in indices]
        if dest_array is None:
            dest_array = PAModel(self.name, 0, (), self.default_values)
            for p in (props or list(self.properties)):
                dest_array.add_property(p, self.default_values.get(p, 0.0),
                                        stride=self.stride.get(p, 1))
        names = list(self.properties) if props is None else list(props)
        if not indices:
            return dest_array
        start = dest_array.get_number_of_particles()
        dest_array.extend(len(indices))
        for p in names:
            src = self.properties[p]
            dst = dest_array.properties[p]      # KeyError if missing
            st = self.stride.get(p, 1)
            for k, i in enumerate(indices):
                for s in range(st):
                    dst[(start + k) * st + s] = src[i * st + s]
        return dest_array

    def remove_particles(self, indices, align=True):
        idx = sorted(set(int(i) for i in indices))
        if len(idx) > self.n:
            raise ValueError("more indices than particles")
        keep = [i for i in range(self.n) if i not in set(idx)]
        for key, a in list(self.properties.items()):
            st = self.stride.get(key, 1)
            b = numpy.empty(len(keep) * st, dtype=object)
            for k, i in enumerate(keep):
                b[k * st:(k + 1) * st] = a[i * st:(i + 1) * st]
            self.properties[key] = b
        self.__dict__["n"] = len(keep)

    def get_property_arrays(self, all=True, only_real=True):
        return dict((k, numpy.array(list(v), dtype=object))
                    for k, v in self.properties.items())

    def add_particles(self, align=True, **props):
        if not props:
            return 0
        for k in props:
            if k not in self.properties:
                raise AttributeError("property %s not present" % k)
        first = list(props)[-1]
        k = len(props[first]) // self.stride.get(first, 1)
        start = self.n
        self.extend(k)
        for key, vals in props.items():
            st = self.stride.get(key, 1)
            self.properties[key][start * st:] = list(vals)
        return 0

    def __bool__(self):
        return True
