"""Replay of a BMC schedule on the REAL pysph/solver/controller.py: the
module is loaded from the working tree with `threading` / `_thread`
replaced by cooperative primitives that let a thread perform one
synchronisation operation only when the schedule names it."""
import sys
import threading as _real
import types
import importlib.util
import time


class Deadlock(Exception):
    pass


class Scheduler(object):
    def __init__(self, order, names):
        self.order = list(order)          # thread names, one per sync op
        self.pos = 0
        self.names = names
        self.mon = _real.Condition()
        self.state = {}                    # name -> 'ready'|'blocked'|'done'
        self.want = {}                     # name -> callable enabled()
        self.free = False
        self.trace = []
        self.notifies = []   # (thread, op, threads left waiting un-notified)
        self.dead = False

    def me(self):
        return _real.current_thread().name

    def point(self, enabled=None, what=""):
        """block until it is this thread's turn to do its next sync op"""
        me = self.me()
        if me not in self.names:
            return                       # not a managed thread
        with self.mon:
            self.want[me] = (enabled or (lambda: True), what)
            self.state[me] = "ready"
            self.mon.notify_all()
            while True:
                if self.dead:
                    raise Deadlock()
                if self._turn() == me:
                    self.trace.append((me, what))
                    self.pos += 1
                    self.state[me] = "running"
                    del self.want[me]
                    return
                self.mon.wait(0.05)

    def _turn(self):
        """who may go now (called with mon held)"""
        live = [n for n in self.names if self.state.get(n) != "done"]
        if any(self.state.get(n) == "running" for n in live):
            return None
        # everybody alive must have arrived at a point
        if any(self.state.get(n) not in ("ready",) for n in live):
            return None
        if self.pos < len(self.order):
            n = self.order[self.pos]
            if n in self.want and self.want[n][0]():
                return n
            # schedule names a thread that cannot move: fall through to
            # free running (reported by the caller as a mismatch)
            self.mismatch = (self.pos, n)
            self.order = self.order[:self.pos]
        # free run: lowest-index enabled thread
        for n in self.names:
            if n in self.want and self.want[n][0]():
                return n
        if live:
            self.dead = True
            self.mon.notify_all()
        return None

    def done(self):
        with self.mon:
            self.state[self.me()] = "done"
            self.mon.notify_all()

    mismatch = None


class CoopLock(object):
    def __init__(self, sched, reentrant=False):
        self.s = sched
        self.owner = None
        self.count = 0
        self.reentrant = reentrant

    def acquire(self, blocking=True, timeout=-1):
        me = self.s.me()
        self.s.point(lambda: self.owner is None or
                     (self.reentrant and self.owner == me), "acquire")
        self.owner = me
        self.count += 1
        return True

    def release(self):
        self.s.point(None, "release")
        if self.owner is None:
            raise RuntimeError("release unlocked lock")
        self.count -= 1
        if self.count <= 0:
            self.owner = None
            self.count = 0

    def locked(self):
        return self.owner is not None

    __enter__ = acquire

    def __exit__(self, *a):
        self.release()


class CoopCondition(object):
    def __init__(self, sched):
        self.s = sched
        self.lock = CoopLock(sched, reentrant=True)
        self.waiting = []
        self.notified = set()

    def acquire(self, *a, **k):
        return self.lock.acquire()

    def release(self):
        self.lock.release()

    __enter__ = acquire

    def __exit__(self, *a):
        self.lock.release()

    def wait(self, timeout=None):
        me = self.s.me()
        self.s.point(None, "wait")
        self.lock.owner = None
        self.lock.count = 0
        self.waiting.append(me)
        self.s.point(lambda: me in self.notified and self.lock.owner is None,
                     "wake")
        self.notified.discard(me)
        self.lock.owner = me
        self.lock.count = 1
        return True

    def notify(self, n=1):
        self.s.point(None, "notify")
        for _ in range(n):
            if self.waiting:
                self.notified.add(self.waiting.pop(0))
        self.s.notifies.append((self.s.me(), "notify", list(self.waiting)))

    def notify_all(self):
        self.s.point(None, "notify_all")
        while self.waiting:
            self.notified.add(self.waiting.pop(0))
        self.s.notifies.append((self.s.me(), "notify_all", []))


def load_controller(path, sched):
    """exec the real controller source with cooperative threading"""
    shim = types.ModuleType("threading")
    shim.Lock = lambda: CoopLock(sched)
    shim.RLock = lambda: CoopLock(sched, reentrant=True)
    shim.Condition = lambda lock=None: CoopCondition(sched)
    shim.current_thread = _real.current_thread
    shim.Thread = _real.Thread
    tshim = types.ModuleType("_thread")
    tshim.LockType = CoopLock
    pa = types.ModuleType("pysph.base.particle_array")
    pa.ParticleArray = object
    import logging      # noqa: must not be imported under the shim
    import functools    # noqa
    saved = dict((k, sys.modules.get(k)) for k in
                 ("threading", "_thread", "pysph.base.particle_array"))
    try:
        sys.modules["threading"] = shim
        sys.modules["_thread"] = tshim
        if saved["pysph.base.particle_array"] is None:
            sys.modules["pysph.base.particle_array"] = pa
        spec = importlib.util.spec_from_file_location("controller_under_test",
                                                      path)
        mod = importlib.util.module_from_spec(spec)
        spec.loader.exec_module(mod)
    finally:
        for k, v in saved.items():
            if v is None:
                sys.modules.pop(k, None)
            else:
                sys.modules[k] = v
    return mod


def run(path, programs, order, timeout=20.0):
    """programs: [(name, [ops])], first is the solver.  Returns dict with
    the outcome: deadlock (bool), blocked threads, executed counts, results,
    errors, the trace of sync operations and progress marks."""
    names = [n for n, _ in programs]
    sched = Scheduler(order, names)
    mod = load_controller(path, sched)
    solver = types.SimpleNamespace(count=0, particles=[])
    cm = mod.CommandManager(solver)
    executed = {}
    orig = mod.CommandManager.run_command

    def run_command(self, cmd, args=[], kwargs={}):
        executed[cmd] = executed.get(cmd, 0) + 1
        return ["fluid"]
    mod.CommandManager.run_command = run_command
    out = dict(errors=[], marks=[], results={}, finished=[], left_paused=[])
    state = dict(in_wfc=False)
    orig_wfc = cm.wait_for_cmd

    def wfc():
        state["in_wfc"] = True
        try:
            return orig_wfc()
        finally:
            state["in_wfc"] = False
            if cm.pause:
                out["left_paused"].append(sorted(cm.pause))
    cm.wait_for_cmd = wfc

    def body(name, prog):
        try:
            tid = None
            for i, op in enumerate(prog):
                out["marks"].append((name, op, i, "begin", sched.pos))
                if op == "X":
                    cm.execute_commands(solver)
                    solver.count += 1
                elif op == "Q":
                    tid = cm.dispatch(False, "get_particle_array_names")
                elif op == "R":
                    out["results"][name] = cm.get_result(tid)
                elif op == "P":
                    cm.pause_on_next()
                elif op == "W":
                    cm.wait()
                elif op == "C":
                    cm.cont()
                out["marks"].append((name, op, i, "end", sched.pos,
                                     state["in_wfc"]))
            out["finished"].append(name)
        except Deadlock:
            pass
        except Exception as e:                      # noqa
            out["errors"].append("%s: %r" % (name, e))
        finally:
            sched.done()

    threads = [_real.Thread(target=body, args=(n, p), name=n, daemon=True)
               for n, p in programs]
    for t in threads:
        t.start()
    t0 = time.time()
    for t in threads:
        t.join(max(0.1, timeout - (time.time() - t0)))
    out["deadlock"] = sched.dead
    out["blocked"] = [n for n in names if n not in out["finished"]]
    out["executed"] = executed
    out["trace"] = sched.trace
    out["notifies"] = sched.notifies
    out["mismatch"] = sched.mismatch
    out["timed_out"] = any(t.is_alive() for t in threads) and not sched.dead
    return out
