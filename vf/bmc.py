"""Bounded model checking of the thread protocol in
pysph/solver/controller.py.

The methods of CommandManager are translated from their AST (read from the
working tree on every run) into a small instruction list: control flow and
the synchronisation structure (with / while / if / try-finally / calls /
wait / notify / acquire / release) come generically from the AST; leaf
statements over the shared dictionaries and the queue are recognised by
their source text (LEAVES) - an unknown statement makes the unit "not
encodable", never silently skipped.  The transition system is unrolled in
z3 with the schedule as a symbolic array."""
import ast
import os
import textwrap

import z3

SYNC = ("acq", "rel", "wait", "wait2", "notify", "end")

# leaf statement (normalised source) -> data operation
LEAVES = {
    "self.pause.add(threading.current_thread().ident)": ("pause_add",),
    "self.pause.remove(threading.current_thread().ident)": ("pause_rm",),
    "lock_id = self.queue.pop(0)": ("q_pop",),
    "(meth, args, kwargs) = self.queue_dict[lock_id]": ("qd_read",),
    "self.results[lock_id] = self.run_command(meth, args, kwargs)":
        ("exec",),
    "del self.queue_dict[lock_id]": ("qd_del",),
    "lock = threading.Lock()": ("new_lock",),
    "lock_id = id(lock)": ("nop",),
    "self.queue_lock_map[lock_id] = lock": ("qlm_set",),
    "self.queue_dict[lock_id] = (meth, args, kwargs)": ("qd_set",),
    "self.queue.append(lock_id)": ("q_append",),
    "lock_id = int(lock_id)": ("nop",),
    "lock = self.queue_lock_map[lock_id]": ("qlm_read",),
    "ret = self.results[lock_id]": ("res_read",),
    "del self.results[lock_id]": ("res_del",),
    "del self.queue_lock_map[lock_id]": ("qlm_del",),
    "(self.queue_dict, self.queue, self.pause) = self.comm.bcast("
    "(self.queue_dict, self.queue, self.pause))": ("nop",),
    "prop = args[0]": ("nop",),
}
LEAVES["meth, args, kwargs = self.queue_dict[lock_id]"] = ("qd_read",)
LEAVES["self.queue_dict, self.queue, self.pause = self.comm.bcast("
       "(self.queue_dict, self.queue, self.pause))"] = ("nop",)
# conditions over shared state
CONDS = {
    "self.pause": "pause_nonempty",
    "self.queue": "q_nonempty",
    "self.comm.Get_size() > 1": False,       # serial run (DummyComm)
    "self.comm.Get_rank() == 0": True,
    "self.rank == 0": True,
}
LOCKS = {"self.qlock": "qlock", "self.plock": "plock",
         "self.res_lock": "res_lock", "lock": "task",
         "self.queue_lock_map[lock_id]": "task"}


class NotEncodable(Exception):
    pass


W = 8     # all integers of the model fit in signed 8-bit vectors


def IV(x):
    return z3.BitVecVal(x, W)


def _src(node):
    return " ".join(ast.unparse(node).split())


class Compiler(object):
    """AST of CommandManager methods -> instruction list for one call."""

    def __init__(self, path):
        with open(path) as fp:
            self.tree = ast.parse(fp.read())
        self.methods = {}
        for node in self.tree.body:
            if isinstance(node, ast.ClassDef) and \
                    node.name == "CommandManager":
                for f in node.body:
                    if isinstance(f, ast.FunctionDef):
                        self.methods[f.name] = f
        self.sync_decorated = set(
            n for n, f in self.methods.items()
            if any(_src(d) == "synchronized" for d in f.decorator_list))

    def compile_call(self, name, env, code=None, depth=0):
        """append the instructions of self.<name>(...) to code; env maps
        local names to concrete python values for partial evaluation."""
        if depth > 6:
            raise NotEncodable("call depth")
        code = [] if code is None else code
        f = self.methods[name]
        wrap = name in self.sync_decorated
        if wrap:
            code.append(("acq", "dlock"))
        self._block(f.body, env, code, ["dlock"] if wrap else [], depth)
        if wrap:
            code.append(("rel", "dlock"))
        return code

    # -- statements -------------------------------------------------------
    def _block(self, stmts, env, code, withs, depth):
        for s in stmts:
            self._stmt(s, env, code, withs, depth)

    def _cond(self, test, env):
        src = _src(test)
        if src in CONDS:
            return CONDS[src]
        try:
            return bool(eval(compile(ast.Expression(test), "<cond>", "eval"),
                             {}, env))
        except Exception:
            raise NotEncodable("condition %r" % src)

    def _stmt(self, s, env, code, withs, depth):
        if isinstance(s, ast.Expr) and isinstance(s.value, ast.Constant):
            return                                  # docstring
        if isinstance(s, ast.With):
            names = []
            for item in s.items:
                src = _src(item.context_expr)
                if src not in LOCKS:
                    raise NotEncodable("with %s" % src)
                code.append(("acq", LOCKS[src]))
                names.append(LOCKS[src])
            self._block(s.body, env, code, withs + names, depth)
            for n in reversed(names):
                code.append(("rel", n))
            return
        if isinstance(s, ast.While):
            top = len(code)
            c = self._cond(s.test, env)
            code.append(["jf", c, None])
            self._block(s.body, env, code, withs, depth)
            code.append(("jmp", top))
            code[top][2] = len(code)
            code[top] = tuple(code[top])
            return
        if isinstance(s, ast.If):
            c = self._cond(s.test, env)
            if c is True:
                return self._block(s.body, env, code, withs, depth)
            if c is False:
                return self._block(s.orelse, env, code, withs, depth)
            at = len(code)
            code.append(["jf", c, None])
            self._block(s.body, env, code, withs, depth)
            j = len(code)
            code.append(["jmp", None])
            code[at][2] = len(code)
            code[at] = tuple(code[at])
            self._block(s.orelse, env, code, withs, depth)
            code[j][1] = len(code)
            code[j] = tuple(code[j])
            return
        if isinstance(s, ast.Try):
            if s.handlers or s.orelse:
                raise NotEncodable("try with handlers")
            self._block(s.body, env, code, withs, depth)
            self._block(s.finalbody, env, code, withs, depth)
            return
        if isinstance(s, ast.For):
            if _src(s.iter) == "self.func_dict":
                return                               # no registered function
            raise NotEncodable("for %s" % _src(s.iter))
        if isinstance(s, ast.Return):
            for n in reversed(withs):
                code.append(("rel", n))
            code.append(("ret",))
            return
        if isinstance(s, ast.Raise):
            code.append(("data", "error"))
            return
        src = _src(s)
        if src in LEAVES:
            op = LEAVES[src]
            if op[0] != "nop":
                code.append(("data",) + op)
            return
        if isinstance(s, ast.Expr) and isinstance(s.value, ast.Call):
            call = s.value
            fs = _src(call.func)
            if fs.startswith("logger."):
                return
            if fs in ("self.plock.notify_all", "self.qlock.notify_all"):
                code.append(("notify", fs.split(".")[1], True))
                return
            if fs in ("self.plock.notify", "self.qlock.notify"):
                code.append(("notify", fs.split(".")[1], False))
                return
            if fs in ("self.plock.wait", "self.qlock.wait"):
                code.append(("wait", fs.split(".")[1]))
                code.append(("wait2", fs.split(".")[1]))
                return
            if fs == "lock.acquire":
                code.append(("acq", "task"))
                return
            if fs == "self.queue_lock_map[lock_id].release":
                code.append(("rel", "task"))
                return
            if fs.startswith("self.") and fs[5:] in self.methods:
                sub = []
                self.compile_call(fs[5:], env, sub, depth + 1)
                self._inline(sub, code)
                return
        raise NotEncodable("statement %r" % src)

    @staticmethod
    def _inline(sub, code):
        base = len(code)
        end = base + len(sub)
        for ins in sub:
            if ins[0] == "jf":
                code.append(("jf", ins[1], ins[2] + base))
            elif ins[0] == "jmp":
                code.append(("jmp", ins[1] + base))
            elif ins[0] == "ret":
                code.append(("jmp", end))
            else:
                code.append(ins)


def build_thread(comp, program):
    """program: list of high-level operations ->  one instruction list.
    Interface ops: 'Q' queue a lazy command (non-blocking dispatch),
    'R' get_result of the thread's last task, 'P' pause_on_next, 'W' wait,
    'C' cont.  Solver op: 'X' one control point (execute_commands)."""
    code = []
    marks = []
    env_q = dict(block=False, meth="get_particle_array_names", args=(),
                 kwargs={})
    import types
    # concrete attributes needed to partially evaluate dispatch()
    env_q["self"] = types.SimpleNamespace(
        dispatch_dict={"get": 0, "set": 0, "get_particle_array_names": 0},
        active_methods=set(("get_status", "get_task_lock", "set_log_level")),
        solver_props=set())
    for i, op in enumerate(program):
        marks.append((len(code), "%s#%d:begin" % (op, i)))
        sub = []
        if op == "Q":
            comp.compile_call("dispatch", env_q, sub)
        elif op == "R":
            comp.compile_call("get_result", {}, sub)
        elif op == "P":
            comp.compile_call("pause_on_next", {}, sub)
        elif op == "W":
            comp.compile_call("wait", {}, sub)
        elif op == "C":
            comp.compile_call("cont", {}, sub)
        elif op == "X":
            comp.compile_call("execute_commands", {"solver": None}, sub)
        else:
            raise ValueError(op)
        Compiler._inline(sub, code)
        marks.append((len(code), "%s#%d:end" % (op, i)))
    code.append(("end",))
    return code, marks


# ---------------------------------------------------------------------------
class System(object):
    """threads: list of (name, program).  Thread 0 is the solver."""

    def __init__(self, controller_path, programs):
        self.comp = Compiler(controller_path)
        self.threads = []
        for name, prog in programs:
            code, marks = build_thread(self.comp, prog)
            self.threads.append(dict(name=name, prog=prog, code=code,
                                     marks=marks))
        self.nt = len(self.threads)
        self.ntask = max(1, sum(p.count("Q") for _, p in programs))
        self.locks = ["qlock", "plock", "res_lock", "dlock"] + \
            ["task%d" % k for k in range(self.ntask)]
        self.conds = ["qlock", "plock"]

    # -- initial state ---------------------------------------------------------
    def init_state(self):
        s = {}
        for t in range(self.nt):
            s["pc%d" % t] = IV(0)
            s["cur%d" % t] = IV(-1)       # local lock_id
            s["pause%d" % t] = z3.BoolVal(False)
            s["obs%d" % t] = z3.BoolVal(False)   # pause[t] seen by the solver
            # thread t sat un-notified in plock.wait when the solver
            # announced a control point and was not woken by it
            s["missed%d" % t] = z3.BoolVal(False)
            for c in self.conds:
                s["w_%s_%d" % (c, t)] = z3.BoolVal(False)
                s["n_%s_%d" % (c, t)] = z3.BoolVal(False)
        for L in self.locks:
            s["own_" + L] = IV(-1)
        s["qlen"] = IV(0)
        for i in range(self.ntask):
            s["q%d" % i] = IV(-1)
            s["qd%d" % i] = z3.BoolVal(False)
            s["qlm%d" % i] = z3.BoolVal(False)
            s["res%d" % i] = z3.BoolVal(False)
            s["exec%d" % i] = IV(0)
            s["got%d" % i] = z3.BoolVal(False)    # result delivered
        s["ntask"] = IV(0)
        s["err"] = z3.BoolVal(False)
        return s

    # -- helpers -----------------------------------------------------------------
    def _lockname(self, L, s, t):
        """concrete lock names with the condition selecting them"""
        if L != "task":
            return [(z3.BoolVal(True), L)]
        return [(s["cur%d" % t] == k, "task%d" % k)
                for k in range(self.ntask)]

    def enabled(self, s, t):
        code = self.threads[t]["code"]
        terms = []
        for p, ins in enumerate(code):
            if ins[0] not in SYNC:
                continue
            here = s["pc%d" % t] == p
            if ins[0] == "acq":
                ok = z3.Or(*[z3.And(c, s["own_" + n] == -1)
                             for c, n in self._lockname(ins[1], s, t)])
            elif ins[0] == "wait2":
                ok = z3.And(s["n_%s_%d" % (ins[1], t)],
                            s["own_" + ins[1]] == -1)
            elif ins[0] == "end":
                ok = z3.BoolVal(False)
            else:
                ok = z3.BoolVal(True)
            terms.append(z3.And(here, ok))
        return z3.Or(*terms)

    def finished(self, s, t):
        return s["pc%d" % t] == len(self.threads[t]["code"]) - 1

    def step_thread(self, s, t, pick):
        """state after thread t performs the sync op at its pc followed by
        the plain statements up to the next sync op"""
        code = self.threads[t]["code"]
        result = None
        for p, ins in enumerate(code):
            if ins[0] not in SYNC or ins[0] == "end":
                continue
            ns = dict(s)
            self._sync(ns, t, ins, pick)
            ns = self._run(ns, t, p + 1, 0)
            if result is None:
                result = ns
            else:
                c = s["pc%d" % t] == p
                result = dict((k, z3.If(c, ns[k], result[k])) for k in ns)
        return result

    def _sync(self, s, t, ins, pick):
        kind = ins[0]
        if kind == "acq":
            for c, n in self._lockname(ins[1], s, t):
                s["own_" + n] = z3.If(c, IV(t), s["own_" + n])
        elif kind == "rel":
            for c, n in self._lockname(ins[1], s, t):
                # releasing a lock one does not hold is legal for the plain
                # per-task Lock (released by the solver thread); releasing
                # an UNLOCKED lock raises RuntimeError
                if ins[1] == "task":
                    s["err"] = z3.Or(s["err"],
                                     z3.And(c, s["own_" + n] == -1))
                s["own_" + n] = z3.If(c, IV(-1), s["own_" + n])
        elif kind == "wait":
            s["own_" + ins[1]] = IV(-1)
            s["w_%s_%d" % (ins[1], t)] = z3.BoolVal(True)
            s["n_%s_%d" % (ins[1], t)] = z3.BoolVal(False)
        elif kind == "wait2":
            s["own_" + ins[1]] = IV(t)
            s["w_%s_%d" % (ins[1], t)] = z3.BoolVal(False)
            s["n_%s_%d" % (ins[1], t)] = z3.BoolVal(False)
        elif kind == "notify":
            c = ins[1]
            before = dict((u, z3.And(s["w_%s_%d" % (c, u)],
                                     z3.Not(s["n_%s_%d" % (c, u)])))
                          for u in range(self.nt))
            if ins[2]:
                for u in range(self.nt):
                    s["n_%s_%d" % (c, u)] = z3.Or(s["n_%s_%d" % (c, u)],
                                                  s["w_%s_%d" % (c, u)])
            else:
                # wakes one waiting thread: the one named by `pick` if it
                # waits, else the lowest-numbered waiter
                waiting = [z3.And(s["w_%s_%d" % (c, u)],
                                  z3.Not(s["n_%s_%d" % (c, u)]))
                           for u in range(self.nt)]
                chosen = []
                for u in range(self.nt):
                    first = z3.And(waiting[u], *[z3.Not(waiting[v])
                                                 for v in range(u)])
                    pk = z3.And(waiting[u], pick == u)
                    anypick = z3.Or(*[z3.And(waiting[v], pick == v)
                                      for v in range(self.nt)])
                    chosen.append(z3.If(anypick, pk, first))
                for u in range(self.nt):
                    s["n_%s_%d" % (c, u)] = z3.Or(s["n_%s_%d" % (c, u)],
                                                  chosen[u])
            if t == 0 and c == "plock":
                for u in range(self.nt):
                    s["missed%d" % u] = z3.Or(
                        s["missed%d" % u],
                        z3.And(before[u], z3.Not(s["n_%s_%d" % (c, u)])))

    def _run(self, s, t, p, depth):
        """plain statements from p until the next sync op (merged over
        symbolic branches)"""
        code = self.threads[t]["code"]
        if depth > 40:
            raise NotEncodable("loop without synchronisation")
        while True:
            ins = code[p]
            if ins[0] in SYNC:
                s = dict(s)
                s["pc%d" % t] = IV(p)
                return s
            if ins[0] == "jmp":
                p = ins[1]
                depth += 1
                if depth > 40:
                    raise NotEncodable("loop without synchronisation")
                continue
            if ins[0] == "ret":
                raise NotEncodable("stray return")
            if ins[0] == "jf":
                c = ins[1]
                if c is True:
                    p += 1
                    continue
                if c is False:
                    p = ins[2]
                    continue
                cz = self._condz(s, c)
                if c == "pause_nonempty" and t == 0:
                    # history: which pause requests the solver has seen at
                    # its last test (cleared when the test finds none)
                    s = dict(s)
                    for u in range(self.nt):
                        s["obs%d" % u] = z3.And(cz, z3.Or(s["obs%d" % u],
                                                          s["pause%d" % u]))
                a = self._run(s, t, p + 1, depth + 1)
                b = self._run(s, t, ins[2], depth + 1)
                return dict((k, z3.If(cz, a[k], b[k])) for k in a)
            if ins[0] == "data":
                s = dict(s)
                self._data(s, t, ins[1])
                p += 1
                continue
            raise NotEncodable("instruction %r" % (ins,))

    def _condz(self, s, c):
        if c == "pause_nonempty":
            return z3.Or(*[s["pause%d" % u] for u in range(self.nt)])
        if c == "q_nonempty":
            return s["qlen"] > 0
        raise NotEncodable("condition %s" % c)

    def _data(self, s, t, op):
        cur = s["cur%d" % t]
        K = range(self.ntask)

        def sel(prefix):
            r = z3.BoolVal(False)
            for k in K:
                r = z3.If(cur == k, s["%s%d" % (prefix, k)], r)
            return r

        def upd(prefix, val):
            for k in K:
                s["%s%d" % (prefix, k)] = z3.If(cur == k, val,
                                                s["%s%d" % (prefix, k)])
        if op == "pause_add":
            s["pause%d" % t] = z3.BoolVal(True)
        elif op == "pause_rm":
            s["err"] = z3.Or(s["err"], z3.Not(s["pause%d" % t]))   # KeyError
            s["pause%d" % t] = z3.BoolVal(False)
        elif op == "q_pop":
            s["cur%d" % t] = s["q0"]
            for i in range(self.ntask - 1):
                s["q%d" % i] = s["q%d" % (i + 1)]
            s["q%d" % (self.ntask - 1)] = IV(-1)
            s["qlen"] = s["qlen"] - 1
        elif op == "qd_read":
            s["err"] = z3.Or(s["err"], z3.Not(sel("qd")))
        elif op == "exec":
            for k in K:
                s["exec%d" % k] = z3.If(cur == k, s["exec%d" % k] + 1,
                                        s["exec%d" % k])
            upd("res", z3.BoolVal(True))
        elif op == "qd_del":
            s["err"] = z3.Or(s["err"], z3.Not(sel("qd")))
            upd("qd", z3.BoolVal(False))
        elif op == "new_lock":
            s["cur%d" % t] = s["ntask"]
            s["ntask"] = s["ntask"] + 1
        elif op == "qlm_set":
            upd("qlm", z3.BoolVal(True))
        elif op == "qd_set":
            upd("qd", z3.BoolVal(True))
        elif op == "q_append":
            for i in range(self.ntask):
                s["q%d" % i] = z3.If(s["qlen"] == i, cur, s["q%d" % i])
            s["qlen"] = s["qlen"] + 1
        elif op == "qlm_read":
            s["err"] = z3.Or(s["err"], z3.Not(sel("qlm")))
        elif op == "res_read":
            s["err"] = z3.Or(s["err"], z3.Not(sel("res")))
            upd("got", z3.BoolVal(True))
        elif op == "res_del":
            upd("res", z3.BoolVal(False))
        elif op == "qlm_del":
            upd("qlm", z3.BoolVal(False))
        elif op == "error":
            s["err"] = z3.BoolVal(True)
        else:
            raise NotEncodable("data op %s" % op)

    # -- unrolling -----------------------------------------------------------------
    def unroll(self, K):
        """returns (constraints, states, sched, picks)"""
        s = self.init_state()
        # initial macro-run: plain statements before the first sync op
        for t in range(self.nt):
            s = self._run(s, t, 0, 0)
        cons = []
        states = [s]
        sched = [z3.BitVec("sched_%d" % k, W) for k in range(K)]
        picks = [z3.BitVec("pick_%d" % k, W) for k in range(K)]
        for k in range(K):
            cur = states[-1]
            en = [self.enabled(cur, t) for t in range(self.nt)]
            cons.append(z3.And(sched[k] >= -1, sched[k] < self.nt))
            cons.append(z3.And(picks[k] >= 0, picks[k] < self.nt))
            # -1 = stutter, allowed only when nothing is enabled
            cons.append(z3.Implies(sched[k] == -1, z3.Not(z3.Or(*en))))
            nxt = None
            for t in range(self.nt):
                cons.append(z3.Implies(sched[k] == t, en[t]))
                st = self.step_thread(cur, t, picks[k])
                if nxt is None:
                    nxt = st
                else:
                    nxt = dict((key, z3.If(sched[k] == t, st[key], nxt[key]))
                               for key in st)
            nxt = dict((key, z3.If(sched[k] == -1, cur[key], nxt[key]))
                       for key in nxt)
            # name the state so that formulas stay small
            named = {}
            for key, v in nxt.items():
                if z3.is_bool(v):
                    nv = z3.Bool("%s@%d" % (key, k + 1))
                else:
                    nv = z3.BitVec("%s@%d" % (key, k + 1), W)
                cons.append(nv == v)
                named[key] = nv
            states.append(named)
        return cons, states, sched, picks

    # -- predicates ------------------------------------------------------------------
    def pcs_between(self, t, begin_mark, end_mark):
        m = self.threads[t]["marks"]
        lo = [p for p, n in m if n == begin_mark][0]
        hi = [p for p, n in m if n == end_mark][0]
        return lo, hi

    def describe(self, t, pc):
        code = self.threads[t]["code"]
        return "%s@%d:%s" % (self.threads[t]["name"], pc,
                             code[pc] if pc < len(code) else "?")
