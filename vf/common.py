"""Shared plumbing: importing pysph from the working tree, scratch builds,
evidence, known findings, replay, parallel unit runner, exit codes."""
import os
import sys
import json
import time
import hashlib
import fcntl
import shutil
import subprocess
import importlib
import importlib.abc
import traceback
import concurrent.futures as cf

VERIF = os.path.dirname(os.path.dirname(os.path.abspath(__file__)))
REPO = os.environ.get("VERIF_REPO", "/repo")
PY = sys.executable
BUILD_ROOT = "/var/tmp/pysph-verif-build"

EXIT_OK, EXIT_VIOLATION, EXIT_HARNESS = 0, 1, 3


def tier():
    t = os.environ.get("VERIF_TIER", "quick")
    for i, a in enumerate(sys.argv):
        if a == "--tier" and i + 1 < len(sys.argv):
            t = sys.argv[i + 1]
    return "thorough" if t.startswith("t") else "quick"


def seed():
    try:
        return int(os.environ.get("VERIF_SEED", "0"))
    except ValueError:
        return 0


def ncpu():
    try:
        return max(1, min(16, len(os.sched_getaffinity(0))))
    except Exception:
        return 8


# ---------------------------------------------------------------------------
# importing pysph from the working tree only

class _Guard(importlib.abc.MetaPathFinder):
    """Refuse to resolve pysph.* from anywhere but the working tree (or the
    scratch build made from it)."""

    def __init__(self, allowed):
        self.allowed = allowed

    def find_spec(self, name, path, target=None):
        if name == "pysph" or name.startswith("pysph."):
            from importlib.machinery import PathFinder
            spec = PathFinder.find_spec(name, path)
            if spec is None or spec.origin is None:
                return spec
            o = os.path.realpath(spec.origin)
            if not any(o.startswith(a) for a in self.allowed):
                raise ImportError(
                    "verif guard: %s resolves to %s (outside %s)" %
                    (name, o, self.allowed))
            return spec
        return None


_guard = None


def use_repo(models=None):
    """Put the working tree first on sys.path; pysph may only come from it.
    `models`: dict module-name -> module object placed in sys.modules for
    compiled sub-modules a unit merely imports."""
    global _guard
    if _guard is None:
        sys.path[:] = [p for p in sys.path
                       if os.path.realpath(p or ".") != os.path.realpath(REPO)]
        sys.path.insert(0, REPO)
        _guard = _Guard([os.path.realpath(REPO) + os.sep,
                         os.path.realpath(BUILD_ROOT) + os.sep])
        sys.meta_path.insert(0, _guard)
        os.environ.setdefault("PYPR_PYSPH_VERIF", "1")
    for k, v in (models or {}).items():
        sys.modules[k] = v
    import pysph
    assert os.path.realpath(pysph.__file__).startswith(
        os.path.realpath(REPO)), pysph.__file__
    return pysph


_EXT_GLOBS = (".pyx", ".pxd", ".h", ".hpp", ".pxi", ".mako")


def _ext_source_hash():
    h = hashlib.sha256()
    files = ["setup.py"]
    for root, dirs, fs in os.walk(os.path.join(REPO, "pysph")):
        dirs.sort()
        for f in sorted(fs):
            if f.endswith(_EXT_GLOBS):
                files.append(os.path.relpath(os.path.join(root, f), REPO))
    for f in files:
        h.update(f.encode())
        with open(os.path.join(REPO, f), "rb") as fp:
            h.update(fp.read())
    return h.hexdigest()[:16]


def ensure_build(log=None):
    """Scratch build of the working tree's extension modules.  Keyed by the
    hash of every Cython/C/mako source + setup.py: any edit to those rebuilds
    (python sources are always taken from /repo itself, never from the
    build).  Returns the build directory."""
    key = _ext_source_hash()
    os.makedirs(BUILD_ROOT, exist_ok=True)
    lock = open(os.path.join(BUILD_ROOT, ".lock"), "w")
    fcntl.flock(lock, fcntl.LOCK_EX)
    try:
        dst = os.path.join(BUILD_ROOT, key)
        if os.path.exists(os.path.join(dst, ".done")):
            os.utime(os.path.join(dst, ".done"))
            return dst
        # keep disk use bounded (about 60 MB each): the three most recently
        # used builds stay, so that a check running on another tree
        # (VERIF_REPO) does not lose its build under its feet
        old = sorted((os.path.getmtime(os.path.join(BUILD_ROOT, d, ".done"))
                      if os.path.exists(os.path.join(BUILD_ROOT, d, ".done"))
                      else 0.0, d)
                     for d in os.listdir(BUILD_ROOT)
                     if os.path.isdir(os.path.join(BUILD_ROOT, d)))
        for _, d in old[:-3]:
            shutil.rmtree(os.path.join(BUILD_ROOT, d), ignore_errors=True)
        subprocess.check_call(
            ["rsync", "-a", "--exclude", ".git", "--exclude", "build",
             "--exclude", "*.so", "--exclude", "docs", REPO + "/", dst + "/"])
        env = dict(os.environ)
        env.pop("PYTHONPATH", None)
        t0 = time.time()
        out = subprocess.run(
            [PY, "setup.py", "build_ext", "--inplace", "-j", "16"],
            cwd=dst, env=env, stdout=subprocess.PIPE,
            stderr=subprocess.STDOUT, text=True)
        if out.returncode != 0:
            sys.stderr.write(out.stdout[-4000:])
            raise RuntimeError("scratch build of the working tree failed")
        shutil.rmtree(os.path.join(dst, "build"), ignore_errors=True)
        with open(os.path.join(dst, ".done"), "w") as fp:
            fp.write("%.1f\n" % (time.time() - t0))
        return dst
    finally:
        fcntl.flock(lock, fcntl.LOCK_UN)
        lock.close()


def use_repo_with_build():
    """Python sources from /repo, compiled extension modules from a scratch
    build of the working tree."""
    pysph = use_repo()
    b = ensure_build()
    for pkg in ("pysph", "pysph.base", "pysph.tools", "pysph.parallel",
                "pysph.sph", "pysph.solver"):
        m = importlib.import_module(pkg)
        extra = os.path.join(b, *pkg.split("."))
        if os.path.isdir(extra) and extra not in list(m.__path__):
            m.__path__.append(extra)
    return pysph


# ---------------------------------------------------------------------------
def sha_of(path):
    with open(path, "rb") as fp:
        return hashlib.sha256(fp.read()).hexdigest()[:12]


def func_ref(fn):
    """file:line + sha of the source text of a function/class"""
    import inspect
    try:
        src = inspect.getsource(fn)
        f = os.path.relpath(inspect.getsourcefile(fn), REPO)
        ln = inspect.getsourcelines(fn)[1]
        return "%s:%d %s sha=%s" % (
            f, ln, getattr(fn, "__qualname__", getattr(fn, "__name__", "?")),
            hashlib.sha256(src.encode()).hexdigest()[:10])
    except Exception as e:
        return "%r (source unavailable: %s)" % (fn, e)


# ---------------------------------------------------------------------------
def load_findings(pid):
    p = os.path.join(VERIF, "known_findings.json")
    if not os.path.exists(p):
        return []
    with open(p) as fp:
        data = json.load(fp)
    return [f for f in data.get("findings", [])
            if f.get("property") == pid and f.get("status") == "known"]


class Report(object):
    """Collects unit results for one property and writes evidence."""

    def __init__(self, pid, level, technique):
        self.pid = pid
        self.level = level
        self.technique = technique
        self.t0 = time.time()
        self.units = []
        self.violations = []      # dicts with replay path
        self.known = []
        self.harness_errors = []
        self.functions = []
        self.assumptions = []
        self.outside = []
        self.bounds = {}
        self.extra = {}
        self.samples = []

    def add_unit(self, u):
        self.units.append(u)
        for v in u.get("violations", []):
            self.violations.append(v)
        for v in u.get("known", []):
            self.known.append(v)
        for e in u.get("harness_errors", []):
            self.harness_errors.append(e)

    def finish(self):
        q = dict(unsat=0, sat=0, unknown=0)
        paths = 0
        solver_s = 0.0
        feas = feas_unknown = 0
        undecided = []
        incomplete = []
        for u in self.units:
            st = u.get("stats") or {}
            for k in q:
                q[k] += st.get("queries", {}).get(k, 0)
            paths += st.get("paths", 0)
            solver_s += st.get("solver_s", 0.0)
            feas += st.get("feasibility_checks", 0)
            feas_unknown += st.get("feasibility_unknown", 0)
            if st.get("incomplete"):
                incomplete.append("%s: %s" % (u.get("unit"), st["incomplete"]))
            for o in u.get("undecided", []):
                undecided.append("%s: %s" % (u.get("unit"), o))
        nobl = sum(u.get("obligations", 0) for u in self.units)
        ndis = sum(u.get("discharged", 0) for u in self.units)
        cov = dict(
            explanation=(
                "%s. %d units, %d paths explored symbolically (every branch "
                "decision is a solver feasibility query: %d of them, %d "
                "answered unknown and then kept as feasible), %d claim "
                "queries (%d unsat = claim holds on that path for every "
                "input within the bounds, %d sat = claim refuted - a "
                "counter-example, or a candidate match rejected where the "
                "check searches for a matching record, %d unknown = "
                "inconclusive)." %
                (self.technique, len(self.units), paths, feas, feas_unknown,
                 sum(q.values()), q["unsat"], q["sat"], q["unknown"])),
            evaluations=max(1, paths),
            distinct_nontrivial=max(2, len([u for u in self.units if
                                            u.get("obligations", 0) > 0])),
            rule="one evaluation = one symbolic path of a unit; a unit "
                 "(function x configuration) is non-trivial when at least "
                 "one claim was posed to the solver on it",
            obligations=nobl, discharged=ndis,
            queries=q, paths=paths, solver_s=round(solver_s, 2),
            feasibility_queries=feas, feasibility_unknown=feas_unknown,
            solver="z3 %s" % _z3v(),
            functions_encoded=self.functions,
            bounds=self.bounds,
            outside_claim=self.outside,
            undecided=undecided, incomplete_units=incomplete,
            known_findings=sorted(set(k.get("what") for k in self.known)),
            harness_errors=self.harness_errors,
            units=[{k: v for k, v in u.items()
                    if k not in ("violations", "known", "harness_errors")}
                   for u in self.units],
            samples=self.samples or [u.get("sample") for u in self.units
                                     if u.get("sample")][:8] or
            [u.get("unit") for u in self.units][:8],
        )
        cov.update(self.extra)
        if self.level == "translation_validation":
            cov.setdefault("programs", max(1, len(self.units)))
            cov.setdefault("disagreements_checked", q["sat"])
        if self.level == "model_checking":
            cov.setdefault("states", max(1, paths))
            cov.setdefault("transitions", max(1, sum(q.values())))
            cov.setdefault("traces_validated_against_impl", 0)
        ev = dict(property_id=self.pid, tier=tier(), seed=seed(),
                  level=self.level, coverage=cov,
                  assumptions=self.assumptions,
                  wall_s=round(time.time() - self.t0, 2),
                  violations=len(self.violations))
        os.makedirs(os.path.join(VERIF, "evidence"), exist_ok=True)
        with open(os.path.join(VERIF, "evidence", self.pid + ".json"),
                  "w") as fp:
            json.dump(ev, fp, indent=1, default=str)
        seen = set()
        for k in self.known:
            if k.get("id") in seen:
                continue
            seen.add(k.get("id"))
            print("KNOWN-FINDING: property=%s %s" % (self.pid, k.get("what")))
        for u in undecided[:20]:
            print("INCONCLUSIVE: %s" % u)
        for u in incomplete[:20]:
            print("INCOMPLETE: %s" % u)
        print("%s %s: units=%d paths=%d queries=%s solver_s=%.1f wall=%.1fs"
              % (self.pid, tier(), len(self.units), paths, q, solver_s,
                 time.time() - self.t0))
        if self.violations:
            seen = set()
            for v in self.violations:
                if v["replay"] in seen:
                    continue
                seen.add(v["replay"])
                print("VIOLATION property=%s replay=%s  # %s" %
                      (self.pid, v["replay"], v.get("what", "")))
            return EXIT_VIOLATION
        if self.harness_errors:
            for e in self.harness_errors[:20]:
                print("HARNESS-ERROR: %s" % e)
            return EXIT_HARNESS
        return EXIT_OK


def _z3v():
    try:
        import z3
        return z3.get_version_string()
    except Exception:
        return "?"


# ---------------------------------------------------------------------------
def write_replay(pid, name, script):
    d = os.path.join(VERIF, "replay", pid)
    os.makedirs(d, exist_ok=True)
    p = os.path.join(d, name + ".py")
    with open(p, "w") as fp:
        fp.write(script)
    return p


REPLAY_HEADER = '''\
#!/usr/bin/env python
"""Replay of a solver counter-example against the real code in /repo.
exit 1 = the property is violated by the real code, 0 = not reproduced."""
import sys, os
sys.path.insert(0, %r)
from vf import common
''' % VERIF


REPLAY_MARK = "REPLAY-RESULT: property violated on the real code"


def replay_exit(bad):
    """to be returned from a replay script's main: prints the marker the
    triage looks for (so that a crashing replay, which also exits 1, is
    never mistaken for a reproduction)."""
    if bad:
        print(REPLAY_MARK + ": " + str(bad))
        return 1
    print("REPLAY-RESULT: not reproduced")
    return 0


def run_replay(path, timeout=600):
    """exit 1 -> reproduces; 0 -> does not; other -> broken replay"""
    env = dict(os.environ)
    env["PYTHONPATH"] = VERIF
    try:
        r = subprocess.run([PY, path], stdout=subprocess.PIPE,
                           stderr=subprocess.STDOUT, text=True, env=env,
                           timeout=timeout)
    except subprocess.TimeoutExpired:
        return -1, "replay timed out"
    return r.returncode, r.stdout[-3000:]


def triage(pid, unit_result, what, replay_path, match_info, findings=None,
           soft=False):
    """Replay a counter-example and file it as violation / known finding /
    harness error in unit_result."""
    findings = load_findings(pid) if findings is None else findings
    rc, out = run_replay(replay_path)
    if rc == 1 and REPLAY_MARK in out:
        for f in findings:
            if _matches(f, match_info):
                unit_result.setdefault("known", []).append(
                    dict(what=f["what"], replay=replay_path, id=f.get("id")))
                return "known"
        unit_result.setdefault("violations", []).append(
            dict(what=what, replay=replay_path, info=match_info))
        return "violation"
    if soft and rc == 0:
        # exact-real model that the floating-point run does not follow:
        # reported as inconclusive, never as success or violation
        unit_result.setdefault("undecided", []).append(
            "%s: solver model did not reproduce in floating point "
            "(replay %s)" % (what, replay_path))
        return "unreproduced"
    unit_result.setdefault("harness_errors", []).append(
        "counter-example for %s did not reproduce on the real code "
        "(replay %s rc=%s): %s" % (what, replay_path, rc, out[-500:]))
    return "harness"


def _matches(finding, info):
    """A finding matches when every key of finding['match'] equals the
    counter-example's info (lists = any-of)."""
    m = finding.get("match", {})
    for k, v in m.items():
        iv = info.get(k)
        if isinstance(v, list):
            if iv not in v:
                return False
        elif iv != v:
            return False
    return True


# ---------------------------------------------------------------------------
class UnitTimeout(BaseException):
    pass


UNIT_WATCHDOG_S = int(os.environ.get("VERIF_UNIT_WATCHDOG_S", "1500"))


def _run_unit(args):
    fn_mod, fn_name, kw = args
    t0 = time.time()
    import signal

    def _alarm(signum, frame):
        raise UnitTimeout()
    try:
        signal.signal(signal.SIGALRM, _alarm)
        signal.alarm(UNIT_WATCHDOG_S)
    except Exception:
        pass
    try:
        mod = importlib.import_module(fn_mod)
        res = getattr(mod, fn_name)(**kw)
    except UnitTimeout:
        res = dict(unit="%s(%s)" % (fn_name, kw), obligations=0, discharged=0,
                   undecided=["unit stopped by the %d s watchdog" %
                              UNIT_WATCHDOG_S],
                   stats=dict(paths=0, queries=dict(unsat=0, sat=0,
                                                    unknown=0),
                              solver_s=0.0,
                              incomplete="watchdog %d s" % UNIT_WATCHDOG_S))
    except BaseException as e:     # noqa
        res = dict(unit="%s(%s)" % (fn_name, kw),
                   harness_errors=["unit crashed: %s\n%s" %
                                   (e, traceback.format_exc()[-1500:])])
    try:
        signal.alarm(0)
    except Exception:
        pass
    res.setdefault("unit", "%s(%s)" % (fn_name, kw))
    res["wall_s"] = round(time.time() - t0, 2)
    return res


def _unit_child(u, conn):
    try:
        res = _run_unit(u)
    except BaseException as e:     # noqa
        res = dict(unit="%s(%s)" % (u[1], u[2]),
                   harness_errors=["unit crashed: %r" % (e,)])
    try:
        conn.send(res)
    finally:
        conn.close()


def _hard_limit(u):
    """wall-clock limit after which a unit's process is killed: a z3 call
    that does not honour its timeout (seen with nested radicals) cannot be
    interrupted from inside the process"""
    kw = u[2]
    d = kw.get("deadline_s")
    if d:
        return min(UNIT_WATCHDOG_S + 120, 2 * int(d) + 180)
    return UNIT_WATCHDOG_S + 120


def run_units(report, units, nproc=None):
    """units: list of (module, function, kwargs); each runs in its own
    process (fresh interpreter state, own z3 context) under a hard
    wall-clock limit; a killed unit is reported as incomplete, never as
    held."""
    nproc = nproc or ncpu()
    import multiprocessing as mp
    ctx = mp.get_context("spawn")
    pending = list(enumerate(units))
    running, results = {}, {}

    def stopped(u, why, harness=False):
        r = dict(unit="%s(%s)" % (u[1], u[2]), obligations=0, discharged=0,
                 undecided=[] if harness else [why],
                 stats=dict(paths=0, queries=dict(unsat=0, sat=0, unknown=0),
                            solver_s=0.0, incomplete=why))
        if harness:
            r["harness_errors"] = [why]
        return r
    while pending or running:
        while pending and len(running) < nproc:
            i, u = pending.pop(0)
            rd, wr = ctx.Pipe(duplex=False)
            p = ctx.Process(target=_unit_child, args=(u, wr))
            p.start()
            wr.close()
            running[i] = (p, rd, time.time(), u)
        for i, (p, rd, t0, u) in list(running.items()):
            if rd.poll(0):
                try:
                    results[i] = rd.recv()
                except Exception as e:
                    results[i] = stopped(u, "unit result lost: %r" % (e,),
                                         harness=True)
                p.join(10)
                del running[i]
            elif not p.is_alive():
                if rd.poll(0.2):
                    continue
                results[i] = stopped(u, "unit process died (exit code %s)" %
                                     p.exitcode, harness=True)
                del running[i]
            elif time.time() - t0 > _hard_limit(u):
                p.kill()
                p.join(10)
                results[i] = stopped(
                    u, "unit killed after %d s (a solver call did not "
                    "return)" % _hard_limit(u))
                del running[i]
        time.sleep(0.05)
    for i in sorted(results):
        report.add_unit(results[i])
