"""A family of small Equation classes defining different subsets of the
seven hook methods, used to generate group trees for C03/C02 (the code
generator needs real classes with retrievable source)."""
from compyle.api import declare
from pysph.sph.equation import Equation


class EqI(Equation):
    def initialize(self, d_idx, d_au):
        d_au[d_idx] = 0.0


class EqL(Equation):
    def loop(self, d_idx, s_idx, d_au, s_m, WIJ):
        d_au[d_idx] += s_m[s_idx]*WIJ


class EqIL(Equation):
    def initialize(self, d_idx, d_av):
        d_av[d_idx] = 0.0

    def loop(self, d_idx, s_idx, d_av, s_rho, DWIJ):
        d_av[d_idx] += s_rho[s_idx]*DWIJ[0]


class EqILP(Equation):
    def initialize(self, d_idx, d_aw):
        d_aw[d_idx] = 0.0

    def loop(self, d_idx, s_idx, d_aw, s_m, XIJ, R2IJ):
        d_aw[d_idx] += s_m[s_idx]*XIJ[1]*R2IJ

    def post_loop(self, d_idx, d_aw, d_h):
        d_aw[d_idx] = d_aw[d_idx]/d_h[d_idx]


class EqLA(Equation):
    def loop_all(self, d_idx, d_au, s_m, NBRS, N_NBRS):
        i = declare('int')
        for i in range(N_NBRS):
            d_au[d_idx] += s_m[NBRS[i]]

    def loop(self, d_idx, s_idx, d_av, s_m):
        d_av[d_idx] += s_m[s_idx]


class EqLAO(Equation):
    """loop_all only (no loop): its source block must still be generated"""
    def loop_all(self, d_idx, d_aw, s_m, NBRS, N_NBRS):
        i = declare('int')
        for i in range(N_NBRS):
            d_aw[d_idx] += s_m[NBRS[i]]


class EqIP(Equation):
    def initialize_pair(self, d_idx, d_au, s_m):
        d_au[d_idx] = s_m[0]

    def loop(self, d_idx, s_idx, d_au, s_m, VIJ):
        d_au[d_idx] += s_m[s_idx]*VIJ[2]


class EqR(Equation):
    def loop(self, d_idx, s_idx, d_rho, s_m, WIJ):
        d_rho[d_idx] += s_m[s_idx]*WIJ

    def reduce(self, dst, t, dt):
        pass


class EqPY(Equation):
    def py_initialize(self, dst, t, dt):
        pass

    def loop(self, d_idx, s_idx, d_rho, s_m, WI):
        d_rho[d_idx] += s_m[s_idx]*WI


class EqC(Equation):
    def loop(self, d_idx, s_idx, d_p, s_m, HIJ, RHOIJ1):
        d_p[d_idx] += s_m[s_idx]*HIJ*RHOIJ1

    def converged(self):
        return 1.0


class EqNS(Equation):
    """no sources: loop over destination particles only"""
    def initialize(self, d_idx, d_p):
        d_p[d_idx] = 0.0

    def loop(self, d_idx, d_p, d_rho, t, dt):
        d_p[d_idx] = d_rho[d_idx]*dt + t

    def post_loop(self, d_idx, d_p):
        d_p[d_idx] += 1.0


FAMILY = [EqI, EqL, EqIL, EqILP, EqLA, EqLAO, EqIP, EqR, EqPY, EqC, EqNS]
