#!/usr/bin/env python
"""Regenerates /verif/MANIFEST.json from the table below and validates it."""
import json
import os
import sys

HERE = os.path.dirname(os.path.dirname(os.path.abspath(__file__)))

SYMX = ("bounded symbolic execution of the real code (python source run on "
        "z3 proxy values, every path enumerated) + SMT verdict per path")

CHECKS = {
    "C13": dict(
        level="other",
        text="Every path of the real gj_solve / mat_mult / mat_vec_mult / dot "
             "/ identity / augmented_matrix is executed on exact-real "
             "symbolic matrices (n<=3 quick, n<=4 thorough) and z3 decides "
             "'rc=0 and det!=0 => A.x=b' and 'rc!=0 => singular' per path; "
             "counter-examples are replayed on the real function. The "
             "Householder stage tred2 of the 3x3 eigen-decomposition "
             "(linalg3.pyx, lowered) is checked for symmetric matrices with "
             "at least one zero off-diagonal entry: Q orthogonal and Q^T A Q "
             "= tridiag(d, e). Bounded (sizes, exact arithmetic), not a "
             "proof.",
        note="python floats modelled as reals (rounding outside the claim); "
             "abs/float shadowed in the module globals; z3 5.1 trusted; "
             "paths whose query times out are reported INCONCLUSIVE in "
             "evidence, never as success",
        technique="symbolic execution of the python source on z3 Real "
                  "proxies, per-path SMT (QF_NRA) query, replay of models",
        design="2/C13"),
}

CHECKS["C08"] = dict(
    level="other",
    text="The ten real kernel classes are executed on exact-real proxies "
         "(rij, h, xij and pi symbolic) for every dimension they accept; on "
         "every path (= polynomial piece) z3 decides support, sign, "
         "dwdq = h dW/dr (formal derivative of the path's own W term), "
         "gradient, gradient_h = dW/dh, continuity across piece boundaries "
         "and the normalisation integral (sympy antiderivative verified by "
         "z3). Bounded by exact arithmetic and a 1e-10 relative tolerance "
         "for the module's rounded float literals; not a proof.",
    note="floats as reals; exp uninterpreted with exp>0 and the chain rule; "
         "formal differentiator (vf/zdiff.py) trusted; Gaussian-family "
         "normalisation integral and the compiled twins are outside",
    technique="symbolic execution of the python source on z3 Real proxies, "
              "per-piece SMT (QF_NRA) queries, certificate checking, replay "
              "on 60-digit mpmath numbers",
    design="2/C08")
CHECKS["C15"] = dict(
    level="other",
    text="Each of the 11 real solver functions is executed on exact-real "
         "proxies on the forward and the mirrored problem inside one "
         "symbolic path; z3 decides 'equal return codes, equal p*, negated "
         "u*' per path pair, 'equal states return the common state', "
         "'riemann_solve(k) == k-th solver' and 'exact reports failure for "
         "vacuum data'. Symmetry is decided for non_diffusive, roe, llxf, "
         "hllc_ball, hllsy and (partly) hlle; for the others the NRA "
         "queries exceed the cap and are reported undecided. van_leer's "
         "invariance under a common velocity shift and a common factor on "
         "pressures and densities is decided by induction over the Newton "
         "iteration: the initial guess, one loop pass from an arbitrary "
         "symbolic iterate and the final averaging are cut from the AST of "
         "the real function and z3 decides equivariance of each (8 queries; "
         "hypotheses: the pressure floor does not bind, divisors non-zero). "
         "For exact, every path with return code 0 must have met the "
         "convergence test (the relative Newton change is recorded through "
         "the module globals; niter 1, 2).",
    note="floats as reals; sqrt = fresh non-negative root (or a registered "
         "root after the change of variables rho=a^2, gamma*p*rho=k^2, each "
         "use justified by a solver query); pow uninterpreted with the "
         "axioms pow(1,e)=1, pow(b>0,e)>0, pow(b,0)=1, pow(b,1)=b; Newton "
         "iterations bounded by niter=2 (symmetry, equal states, dispatch, "
         "vacuum); the inductive van_leer unit covers any niter; scaling / "
         "Galilean claims for `exact` are outside",
    technique="symbolic execution of the python source on z3 Real proxies "
              "(forward + mirrored run per path), SMT (QF_NRA/UF) per path, "
              "inductive step over the Newton loop cut from the AST for "
              "van_leer, replay of models",
    design="2/C15")

CHECKS["C19"] = dict(
    level="other",
    text="The real Integrator.compute_time_step with its helpers runs on "
         "model particle arrays (1-2 arrays, 0-2 real + 0-1 ghost particles, "
         "every subset of the optional criterion properties) holding "
         "exact-real symbolic values; on every path z3 decides that the "
         "returned value equals the documented minimum (dt_adapt override, "
         "cfl/force/viscous formula with hmin the true minimum h) and that "
         "None is returned exactly when no criterion applies; "
         "Solver._compute_timestep's fallback is checked the same way.",
    note="ParticleArray/carray are models (the carray minimum is the true "
         "minimum over all particles, 0.0 when empty, as cyarray does after "
         "update_min_max); numpy max/min/isinf shadowed; floats as reals; "
         "replay builds the working tree and uses the real ParticleArray",
    technique="symbolic execution of the python source on z3 Real proxies "
              "over model arrays, per-path SMT query against the documented "
              "formula, replay on a scratch build",
    design="2/C19")

CHECKS["C10"] = dict(
    level="other",
    text="The real Solver.__init__ and Solver.solve run with dt, tf, the "
         "requested output times and the adaptive steps as exact-real "
         "symbols and logging stubs for integrator/output/callbacks; every "
         "path through at most K<=3 (quick) / 4 (thorough) iterations is "
         "enumerated and z3 decides: ends at tf, steps positive, start/end "
         "dumps, no requested time jumped over, a dump at every requested "
         "time reached and every pfreq-th iteration, recorded dt nominal, "
         "callbacks once per step. Bounded (K, exact reals); no inductive "
         "claim for longer runs.",
    note="integrator, dump_output, barrier, ProgressBar, callbacks are "
         "stubs; floats as reals; requested times separated by >= 1e-6 tf; "
         "'at' = within 1e-9 tf; solver models that do not replay in "
         "floating point are reported INCONCLUSIVE",
    technique="symbolic execution of the python source on z3 Real proxies "
              "(whole solve loop, bounded by max_steps), per-path SMT "
              "queries, replay on the real Solver",
    design="2/C10")

CHECKS["C09"] = dict(
    level="other",
    text="For 19 listed momentum-equation configurations the real "
         "initialize()+loop() run for the particle pair (a,b) and (b,a) in "
         "one symbolic path, with the real precomputed-symbol code blocks of "
         "equation.py and an abstract radial kernel (W(r,h), gradient = "
         "G(r,h)*xij, justified by C08); z3 decides m_a a_a + m_b a_b = 0 "
         "component-wise and (x_a-x_b) x (m_a a_a) = 0 for the central-force "
         "terms on every path pair, and rho > 0 for SummationDensity. Since "
         "sums over neighbours are linear in pair terms, the pair identity "
         "gives conservation for any closed set, given C01's symmetric "
         "neighbour predicate.",
    note="floats as reals; kernel abstracted by uninterpreted functions; "
         "m, rho, h > 0, parameters >= 0, body forces 0, interacting pair; "
         "EDAC pressure gradient under pavg_a = pavg_b, solid-mechanics "
         "stress under equal array constants; equalities are first "
         "normalised by z3's sum-of-monomials simplifier after clearing "
         "denominators (all divisors non-zero on the path)",
    technique="symbolic execution of the python loop() methods on z3 Real "
              "proxies for both orderings of a pair, SMT (z3 normaliser + "
              "QF_NRA/UF) per path, replay through the real compiled "
              "SPHEvaluator",
    design="2/C09")

CHECKS["C20"] = dict(
    level="other",
    text="Which property/constant names an array has is a solver variable "
         "(one Bool per name, at most 2 missing per run). The real "
         "AccelerationEval constructor (check_equation_array_properties, "
         "Group/MegaGroup) runs on such arrays for every shipped equation "
         "class of the selected modules (all modules in the thorough tier) "
         "and the real stepper check for every shipped IntegratorStep; z3 "
         "decides per path that 'no error => every name the generated "
         "set-up code dereferences is present' and 'error => it names the "
         "equation/stepper and only really missing names'; misspelt "
         "dest/source/stepper array names are checked concretely.",
    note="ParticleArray is a model with symbolic name sets; set/list/print "
         "shadowed in the modules under test; dereferenced names are read "
         "from the real get_dest_array_setup/get_src_array_setup/"
         "get_array_setup; known finding: implicit (precomputed-symbol) "
         "needs are not checked by pysph",
    technique="symbolic execution of the python checker code on symbolic "
              "finite sets (z3 Bool per element), per-path SMT query, "
              "replay with real ParticleArrays",
    design="2/C20")

CHECKS["C12"] = dict(
    level="other",
    text="For the 16 shipped Scheme classes that provide setup_properties, "
         "the real configure_solver / setup_properties / get_equations run "
         "with every boolean option as a z3 Bool and nu as a symbolic real "
         "(enumerated string options are enumerated; dims 2,3 quick / 1,2,3 "
         "thorough; with and without a solid array; clean on/off): the "
         "solver enumerates and closes the option space. On each path's "
         "model the completeness claim (every name the generated set-up "
         "code dereferences, explicitly or through precomputed symbols, and "
         "every stepper argument exists on its array) and code generation "
         "(SPHCompiler._get_code) are evaluated.",
    note="the claim per path is a concrete set inclusion evaluated on the "
         "path's model (one path = one class of option combinations with "
         "identical control flow); C compilation and the 'short run stays "
         "finite' clause are outside; SPHEvaluator is a no-op inside "
         "setup_properties",
    technique="symbolic execution of the scheme methods with options as "
              "SMT variables (solver-pruned path enumeration of the option "
              "space), replay with concrete options",
    design="2/C12")

CHECKS["C14"] = dict(
    level="other",
    text="The real initialize/loop/post_loop hooks of InterpolateFunction, "
         "InterpolateSPH, SPLASHInterpolateProperty(Normalized) and "
         "SPHFirstOrderApproximation(PreStep) run in the documented order "
         "for one target point and 0-2 source particles from 1-2 arrays, "
         "starting from an arbitrary pre-state and evaluated twice; z3 "
         "decides: result equals the documented (weighted) sum / mean, "
         "constant field reproduced, value between min and max, zero when "
         "all weights vanish, re-evaluation gives the same value, the "
         "order1 moment matrix and right-hand side equal their documented "
         "sums, a linear field gives b = M.[p, grad p], and post_loop solves "
         "M x = b (dims 1, 2). Equation level, plus one concrete unit for "
         "SPHEvaluator.update_particle_arrays (the neighbour search is "
         "rebuilt on the new arrays) and the real Interpolator.interpolate "
         "on model arrays with 0-2 real and 0-2 ghost particles and "
         "uninterpreted field values: z3 decides that every source "
         "particle, ghosts included, carries the field when the evaluator "
         "runs.",
    note="kernel abstracted (W(r,h) >= 0, gradient = G(r,h) xij); hooks "
         "driven in the documented order by the harness (C03's subject); "
         "the rest of Interpolator's glue code, grids and periodic domains "
         "are outside; "
         "3-D linear solve outside; counter-examples replay through the "
         "real compiled Interpolator",
    technique="symbolic execution of the python hook methods on z3 Real "
              "proxies from an arbitrary pre-state, per-path SMT query "
              "against the documented sums, replay on the compiled "
              "Interpolator",
    design="2/C14")

CHECKS["C16"] = dict(
    level="other",
    text="The real InletBase.update / OutletBase.update with the real "
         "IOEvaluate.initialize/loop run on record-list arrays with "
         "exact-real positions: one update from an arbitrary pre-state "
         "(inductive step: n<=2 zone particles, <=1-2 fluid particles, "
         "arbitrary reference point and length, axis-aligned or symbolic "
         "unit normal), and two consecutive updates with arbitrary motion in "
         "between; z3 decides on every path that each inlet particle is "
         "copied exactly when it left the zone, its original is recycled one "
         "length upstream, fluid particles past the outlet plane move "
         "exactly once, outlet particles past the far end are deleted, and "
         "nothing else is created, duplicated or lost. The two overriding "
         "copies of update (hybrid Inlet, mirror Outlet without ghost "
         "array) get the same units.",
    note="ParticleArray is a record-list model (C06's subject), SPHEvaluator "
         "a stub applying the real IOEvaluate hooks; floats as reals; "
         "knife-edge disp-length == 1e-6 excluded; replay uses the real "
         "compiled arrays and evaluator",
    technique="symbolic execution of the python update methods on z3 Real "
              "proxies over model arrays (inductive step), per-path SMT "
              "queries, replay on the real compiled code",
    design="2/C16")

CHECKS["C18"] = dict(
    level="model_checking",
    text="Bounded model checking with z3: the CommandManager methods "
         "(dispatch, execute_commands, run_queued_commands, wait_for_cmd, "
         "pause_on_next, wait, cont, get_result) are translated from their "
         "AST into a transition system at synchronisation-primitive "
         "granularity; the schedule is a symbolic array; for one solver "
         "thread (2 control points) and one or two interface threads with "
         "programs over {queued command, get_result, pause_on_next, wait, "
         "cont} z3 decides within K=48 (36 for three threads) transitions "
         "that no global deadlock, error state (KeyError, release of an "
         "unlocked lock), double execution / undelivered result, early "
         "return of wait(), solver progress past a pending pause request or "
         "a waiter left un-notified by the solver's announcement of a "
         "control point is reachable. "
         "Counter-example schedules are replayed on the real module with "
         "cooperative threading primitives.",
    note="the AST translator (vf/bmc.py) is trusted and refuses unknown "
         "statements; serial run (DummyComm); no spurious wake-ups; bounded "
         "in K and in the interface programs; the lost wake-up of wait() is "
         "a recorded known finding",
    technique="SMT-based bounded model checking (QF_BV, symbolic schedule) "
              "of a transition system generated from the python AST, replay "
              "on the real code under a cooperative scheduler",
    design="2/C18")

CHECKS["C03"] = dict(
    level="other",
    text="For seeded random group trees (flat groups, groups, one level of "
         "sub-groups; real on/off, start/stop as numbers or property names, "
         "iterate/min/max, condition, pre/post, update_nnps, several "
         "destinations/sources, a family of equations defining different "
         "subsets of the hook methods) the real code generator emits the "
         "Cython module, which is lowered to Python and whose compute() is "
         "executed with event recorders. Particle/ghost counts, neighbour "
         "counts, start/stop values, condition() and converged() results are "
         "solver variables whose feasible combinations are enumerated by the "
         "path explorer; on every path the event trace (hook, equation, "
         "d_idx, s_idx, which array each d_*/s_* argument points to, "
         "set_context/neighbour queries, nnps updates, pre/post/condition) "
         "must equal that of a reference interpreter of the documented "
         "semantics.",
    note="the Cython->Python lowering (vf/gen2py.py) and the reference "
         "interpreter are trusted; prange sequential; paths per program are "
         "capped (incomplete programs are listed); programs are sampled by "
         "VERIF_SEED (64 + 16 per quick run; the 16 come from a boundary "
         "family with frequent index ranges and the literals start_idx=0, "
         "stop_idx=0)",
    technique="symbolic execution of the lowered generated code with "
              "solver-enumerated control inputs, trace equality against a "
              "reference interpreter, concrete replay",
    design="2/C03")

CHECKS["C04"] = dict(
    level="translation_validation",
    text="For shipped Integrator x IntegratorStep pairs (all pairs of "
         "integrator.py x integrator_step.py plus every other Integrator "
         "subclass with WCSPHStep in the quick tier; all pairs, one and two "
         "arrays, in the thorough tier) the generated integrator module is "
         "lowered to Python and step(t, dt) executed on arrays of exact-real "
         "symbols with 0-2 real and 0-1 ghost particles, with the real "
         "Python Integrator.compute_accelerations/update_domain behind it. "
         "The reference runs the REAL one_timestep of the same class on an "
         "object implementing the documented primitives with the Python "
         "stepper methods. On every path the event traces (py_stage hooks, "
         "stepper calls per real particle with the t and dt they see, "
         "nnps.update, compute(index, t, dt), update_domain, post-stage "
         "callback (t+stage_dt, dt, stage)) and all final array values "
         "(ghosts untouched) must be equal - values via z3.",
    note="Cython->Python lowering trusted (C int semantics not reproduced); "
         "NNPS/evaluator/callback are recorders; one step from an arbitrary "
         "symbolic pre-state; generated integrators/steppers beyond the "
         "shipped ones are not produced",
    technique="translation validation: symbolic execution of the lowered "
              "generated module vs. the python source of one_timestep and "
              "the stepper methods, z3 equality of all results per path",
    design="2/C04")

CHECKS["C01"] = dict(
    level="other",
    text="Partial: (b) the Cython sources of LinkedListNNPS (NNPS.update, "
         "_compute_bounds, _refresh, _bin, _get_number_of_cells, "
         "find_nearest_neighbors, ...) and the inline index functions of "
         "nnps_base.pxd are lowered to Python and executed on exact-real "
         "positions and smoothing lengths of n<=3 particles in 1-2 arrays "
         "(dim 1, 2; also after a move + update(); with the lowered "
         "NeighborCache and sort_gids; and the lowered SpatialHashNNPS "
         "(dims 1-3) and ExtendedSpatialHashNNPS (dims 1-2) over a model of "
         "their C++ hash table); on every path z3 "
         "decides "
         "that each returned neighbour list has valid, distinct indices and "
         "equals the brute-force set {j: d^2 < (rs max(hi,hj))^2} (pairs "
         "exactly on the cut-off excepted); out-of-bounds array accesses of "
         "the lowered code are reported. (a) index lemmas on the lowered "
         "inline functions (stencil sufficiency, flatten injective, "
         "get_valid_cell_index) and a source check that all 8 CPU "
         "*_nnps.pyx use the symmetric acceptance test.",
    note="LinkedListNNPS, SpatialHashNNPS and ExtendedSpatialHashNNPS are "
         "executed end to end; the other 9 are covered by the lemmas/acceptance check only; "
         "sequential, exact reals, max(h)=0.5 in most units (cell size 1), "
         "paths capped by a deadline (incomplete units are listed); "
         "Cython->Python lowering and array models trusted",
    technique="symbolic execution of Cython source lowered to Python on z3 "
              "proxies, per-path SMT query against the brute-force "
              "neighbour predicate, replay on the compiled NNPS",
    design="2/C01")

CHECKS["C17"] = dict(
    level="other",
    text="The Cython sources of NNPS.spatially_order_particles and "
         "LinkedListNNPS.get_spatially_ordered_indices are lowered to Python "
         "and executed after the lowered update/binning on exact-real "
         "positions of n<=3 (4 thorough) particles (dim 1, 2) carrying a "
         "plain and a stride-3 property and concrete Local/Ghost tag "
         "patterns; every cell assignment is enumerated by the path "
         "explorer and on each path: the index list is a permutation of "
         "0..n-1, every particle (matched by identity) keeps all its values "
         "together, none is lost or duplicated, and Local particles occupy "
         "the first num_real_particles slots. The index-copy loops of the "
         "z-order, stratified-SFC and octree variants and "
         "Solver.reorder_particles (reorder each array, then update) are "
         "executed too.",
    note="Cython->Python lowering and cyarray/ParticleArray models trusted; "
         "pids of the SFC/octree variants are a permutation by contract; "
         "cell size 1, coordinates in [0,3]",
    technique="symbolic execution of Cython source lowered to Python with "
              "solver-enumerated cell assignments, replay on the compiled "
              "NNPS",
    design="2/C17")

CHECKS["C07"] = dict(
    level="other",
    text="The Cython sources of DomainManagerBase / CPUDomainManager "
         "(constructor, update, _box_wrap_periodic, _create_ghosts_periodic, "
         "_create_ghosts_mirror, _compute_cell_size_for_binning, "
         "_remove_ghosts, array helpers) are lowered to Python and executed "
         "on record arrays with exact-real positions, velocities, smoothing "
         "lengths and a symbolic box (dims 1-2, periodic / mirror per axis, "
         "n_layers 1-2, 1-2 arrays, n<=2 particles; more in the thorough "
         "tier). The path explorer enumerates every layer-membership "
         "pattern; per path z3 decides that real particles are wrapped by "
         "whole periods into the box and otherwise untouched, that the ghost "
         "multiset equals the documented images (faces and corners; mirror: "
         "reflected coordinate and negated normal velocity; all values "
         "copied, tag Ghost), and that a second update leaves the same "
         "particles.",
    note="Cython->Python lowering and cyarray/ParticleArray models trusted; "
         "max h = 0.5; particles less than one period outside; box wider "
         "than two layers (one narrow-box configuration); dim 3, GPU, "
         "in_parallel and copied-property subsets outside",
    technique="symbolic execution of Cython source lowered to Python on z3 "
              "proxies, per-path SMT queries against the documented image "
              "set, replay on the compiled domain manager",
    design="2/C07")

CHECKS["C02"] = dict(
    level="translation_validation",
    text="For every shipped Equation class of the selected modules (all "
         "modules in the thorough tier) the real code generator emits the "
         "Cython module for {dest a; sources a, b}; it is lowered to Python. "
         "T1: every hook method (initialize, initialize_pair, loop_all, "
         "loop, post_loop, converged) of the generated class and of the "
         "Python class run on the same symbolic arguments and z3 decides "
         "that all written array cells, in-place vectors and return values "
         "agree. T2: the lowered compute() runs for one destination particle "
         "and one neighbour per source with a recorder in place of the "
         "equation; z3 decides that every d_*/s_* argument is the documented "
         "array and every pre-computed symbol (HIJ, XIJ, VIJ, R2IJ, RIJ, "
         "RHOIJ, RHOIJ1, EPS, WIJ, WI, WJ, WDP, DWIJ, DWI, DWJ, GH*, WDASH*) "
         "equals its documented formula. Disagreements are confirmed by a "
         "differential run: compiled SPHEvaluator vs the Python methods "
         "driven in the documented order.",
    note="lowering trusted; exact reals with shared symbolic sqrt/exp/pow; "
         "abstract radial kernel; C int typing not reproduced; only shipped "
         "classes (no random equation generator); the order of hook calls is "
         "C03's subject",
    technique="translation validation: symbolic execution of the lowered "
              "generated module vs. the python source, z3 equality per "
              "path, differential replay on the compiled module",
    design="2/C02")

CHECKS["C06"] = dict(
    level="other",
    text="Every method of ParticleArray is lowered from particle_array.pyx "
         "to Python (typed bindings keep their run-time check) and executed "
         "on a model of the cyarray arrays. Property values are "
         "uninterpreted symbols and tags symbolic integers in {0,1,2}; the "
         "path explorer forks wherever the code compares a tag. Programs = "
         "an initial array (n<=3; double/float/int/long/unsigned, stride 1 "
         "and 2, constants, with and without tags) followed by 1, 2 (3 in "
         "the thorough tier) of 57 public calls (add/remove/extract/append "
         "particles, add/remove property and constant, extend, resize, "
         "align, set_tag, set, copy, clone, pickle round trip...). After "
         "every call the state is compared with the record-list "
         "specification of the same calls: n*stride values per property, "
         "strides, C types, defaults, constants, output list, every particle "
         "keeps all its values together (solver equality per slot), Local "
         "particles first after an alignment. Bounded, not a proof.",
    note="lowering trusted; cyarray modelled after carray.pyx and compared "
         "with the real cyarray on concrete sequences; numpy calls modelled "
         "on lists; valid arguments = documented preconditions coded in "
         "vf/c06_ops.py; GPU helper, written-through numpy views and the "
         "pickle byte format outside",
    technique="symbolic execution of Cython source lowered to Python over "
              "enumerated call sequences, solver-decided tag case analysis "
              "and slot equalities, replay on the compiled class",
    design="2/C06")

CHECKS["C11"] = dict(
    level="other",
    text="The pysph side of the round trip is executed symbolically: the "
         "real pysph.solver.output.dump/load (Output.dump, NumpyOutput, "
         "HDFOutput) and get_particles_info run on the ParticleArray lowered "
         "from particle_array.pyx with symbolic property values and symbolic "
         "tags (n<=3 particles, 1-2 arrays; double/float/int/long/unsigned, "
         "strides 1-3, defaults, constants, output lists with and without "
         "tag; zero particles) for npz and hdf5 x detailed_output x only_real "
         "x compress. numpy's npz files and h5py are replaced by their "
         "contract. After load z3 decides per path that name, properties, C "
         "types, strides, defaults, constants, output list and solver data "
         "are the dumped ones, that every stored property holds the dumped "
         "values of the same particles (only Local ones with only_real) and "
         "that num_real_particles counts the Local particles.",
    note="numpy.savez/load and h5py are environment modelled by contract "
         "(checked on the real libraries in a concrete unit); lowering and "
         "cyarray/numpy models as in C06; version-1 files, MPI gather and "
         "dtype conversion inside numpy/h5py outside; replay writes real "
         "files with the compiled class",
    technique="symbolic execution of the python dump/load code over a "
              "lowered ParticleArray with file formats stubbed by contract, "
              "solver-decided equalities per path, replay through real "
              "npz/hdf5 files",
    design="2/C11")

NOT_APPLICABLE = {
    "C05": "whole-application runs of compiled OpenMP code compared across "
           "configurations up to summation order: no unit a solver can "
           "encode here (no symbolic engine for compiled C++/OpenMP); its "
           "decidable ingredients are checked under C01/C03/C17",
}

PENDING = "check not built yet in this round (see DESIGN.md section 5 for the build order)"

ALL = ["C%02d" % i for i in range(1, 21)]


def main():
    checks = []
    for pid in ALL:
        if pid not in CHECKS:
            continue
        c = CHECKS[pid]
        e = dict(
            property_id=pid,
            quick_cmd="./check %s quick" % pid,
            thorough_cmd="./check %s thorough" % pid,
            evidence_file="/verif/evidence/%s.json" % pid,
            replay_cmd_template="./check %s --replay {path}" % pid,
            engine="bmc" if pid == "C18" else "symx",
            level_claimed=dict(category=c["level"], text=c["text"],
                               design_ref="DESIGN.md section " + c["design"]),
            level_note=c["note"],
            technique=c["technique"])
        checks.append(e)
    na = []
    for pid in ALL:
        if pid in CHECKS:
            continue
        na.append(dict(property_id=pid,
                       reason=NOT_APPLICABLE.get(pid, PENDING)))
    m = dict(
        version=1,
        setup_cmd="sh ./setup.sh",
        hooks=dict(guard="PYPR_PYSPH_VERIF",
                   enable="no source hooks: checks inject stubs through "
                          "module globals / sys.modules from the harness side",
                   baseline_off_cmd="cd /repo && /venv/bin/python -m pytest "
                                    "-ra -q -p no:cacheprovider --timeout=900 "
                                    "--continue-on-collection-errors",
                   source_commits=[], add_only=True),
        engines=[dict(name="bmc", path="/verif/vf/bmc.py",
                      serves_properties=["C18"],
                      kind_free_text="AST-to-transition-system translator "
                                     "and z3 bounded model checker for the "
                                     "controller's thread protocol"),
                 dict(name="symx", path="/verif/vf/symx.py",
                      serves_properties=sorted(k for k in CHECKS
                                               if k != "C18"),
                      kind_free_text="path-exhaustive symbolic executor for "
                                     "real Python code over z3 (DART-style "
                                     "re-execution)")],
        checks=checks,
        notes="Solver-based checking of the real code; see DESIGN.md. "
              "Known genuine defects: known_findings.json.",
        not_applicable=na)
    p = os.path.join(HERE, "MANIFEST.json")
    with open(p, "w") as fp:
        json.dump(m, fp, indent=1)
    try:
        import jsonschema
        jsonschema.validate(m, json.load(open("/root/.vp/MANIFEST.schema.json")))
        print("MANIFEST.json valid: %d checks, %d not_applicable" %
              (len(checks), len(na)))
    except ImportError:
        print("jsonschema not available; not validated")


if __name__ == "__main__":
    main()
