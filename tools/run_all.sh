#!/bin/sh
# runs every registered check's quick (or given) tier sequentially; summary at the end
cd "$(dirname "$0")/.."
tier=${1:-quick}
for id in $(.venv/bin/python -c "import json;print(' '.join(c['property_id'] for c in json.load(open('MANIFEST.json'))['checks']))"); do
  s=$(date +%s); ./check $id $tier > /tmp/runall_$id.log 2>&1; rc=$?
  echo "$id rc=$rc $(( $(date +%s) - s ))s  $(grep -c '^VIOLATION' /tmp/runall_$id.log) viol $(grep -c '^INCONCLUSIVE' /tmp/runall_$id.log) inconcl $(grep -c '^KNOWN-FINDING' /tmp/runall_$id.log) known"
done
