#!/bin/sh
# usage: tools/demo_build.sh <dir-with-patch.diff-and-demo.py>
# Confirms a seed that touches compiled sources: applies the patch to /repo,
# makes the scratch build of the patched tree, runs demo.py against it
# (expected: non-zero), reverts /repo, runs the demo on the clean build
# (expected: zero).
D=$(realpath "$1")
cd "$(dirname "$0")/.."
run() {
  B=$(PYTHONPATH=$PWD .venv/bin/python -c "from vf import common; print(common.ensure_build())")
  T=/var/tmp/pysph-demo.$$
  rm -rf "$T"; rsync -a --exclude .git --exclude build --exclude docs /repo/ "$T"/
  (cd "$B" && find pysph -name '*.so' | while read f; do cp "$f" "$T/$f"; done)
  cp "$D/demo.py" "$T/_seed_demo.py"
  (cd "$T" && /venv/bin/python _seed_demo.py >/tmp/demo_$1.log 2>&1); echo "demo $1 rc=$?"
  rm -rf "$T"
}
git -C /repo apply "$D/patch.diff" || exit 2
run patched
git -C /repo checkout -- .
run clean
