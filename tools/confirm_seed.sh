#!/bin/sh
# usage: tools/confirm_seed.sh <ID> <dir-with-patch.diff-and-demo.py> [check-id...]
# Confirms a seeded change and runs the checks on it without touching /repo:
#   1. scratch worktree /tmp/wt-<ID> at /repo's HEAD, stale *.so removed
#   2. patch applied: the pinned tests must pass, demo.py (run on a copy of
#      the tree with the extensions of a scratch build of the *patched*
#      sources) must exit 1
#   3. the checks run with VERIF_REPO pointing at the patched worktree
#   4. patch reverted: demo.py must exit 0 on the clean build
ID=$1; D=$(realpath "$2"); shift 2
CHECKS="${@:-$ID}"
WT=/tmp/wt-$ID
cd "$(dirname "$0")/.."
[ -d "$WT" ] || git -C /repo worktree add -q --detach "$WT" HEAD
git -C "$WT" checkout -q -- .
git -C "$WT" checkout -q --detach $(git -C /repo rev-parse HEAD)
find "$WT" -name '*.so' -delete
demo() {
  B=$(VERIF_REPO=$WT PYTHONPATH=$PWD .venv/bin/python -c "from vf import common; print(common.ensure_build())")
  T=/var/tmp/pysph-demo.$$
  rm -rf "$T"; rsync -a --exclude .git --exclude build --exclude docs "$WT"/ "$T"/
  (cd "$B" && find pysph -name '*.so' | while read f; do cp "$f" "$T/$f"; done)
  cp "$D/demo.py" "$T/_seed_demo.py"
  (cd "$T" && timeout 1500 /venv/bin/python _seed_demo.py >/tmp/demo_$1.log 2>&1); echo "demo $1 rc=$?"
  rm -rf "$T"
}
git -C "$WT" apply "$D/patch.diff" || { echo "patch does not apply"; exit 2; }
( cd "$WT" && /venv/bin/python -m pytest -q -p no:cacheprovider --timeout=900 --continue-on-collection-errors pysph/base/tests/test_reduce_array.py pysph/examples/tests/test_riemann_solver.py pysph/sph/tests/test_equations.py pysph/sph/tests/test_linalg.py pysph/sph/tests/test_riemann_solver.py 2>&1 | tail -1 )
demo patched
for c in $CHECKS; do
  ( VERIF_REPO=$WT ./check $c quick > /tmp/seed_check_$c.log 2>&1; echo "check $c rc=$? : $(grep -c '^VIOLATION' /tmp/seed_check_$c.log) violations; $(grep -m1 '^VIOLATION' /tmp/seed_check_$c.log | cut -c1-260)" )
done
git -C "$WT" checkout -q -- .
demo clean
