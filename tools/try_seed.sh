#!/bin/sh
# usage: tools/try_seed.sh <ID> <dir-with-patch.diff-and-demo.py> [check-id...]
# 1. confirms the seed in a scratch worktree (pinned tests pass, demo fails
#    with the patch and passes without); 2. applies it to /repo, runs the
#    checks, reverts.
ID=$1; D=$2; shift 2
CHECKS="${@:-$ID}"
WT=/tmp/wt-$ID
[ -d "$WT" ] || git -C /repo worktree add -q --detach "$WT" HEAD
git -C "$WT" checkout -q -- . 
git -C "$WT" checkout -q --detach $(git -C /repo rev-parse HEAD)
cp "$D/demo.py" "$WT/_seed_demo.py"
( cd "$WT" && /venv/bin/python _seed_demo.py >/tmp/seed_clean.log 2>&1 ); echo "demo clean rc=$?"
git -C "$WT" apply "$D/patch.diff" || { echo "patch does not apply"; exit 2; }
( cd "$WT" && /venv/bin/python _seed_demo.py >/tmp/seed_patched.log 2>&1 ); echo "demo patched rc=$?"
( cd "$WT" && /venv/bin/python -m pytest -q -p no:cacheprovider --timeout=900 --continue-on-collection-errors pysph/base/tests/test_reduce_array.py pysph/examples/tests/test_riemann_solver.py pysph/sph/tests/test_equations.py pysph/sph/tests/test_linalg.py pysph/sph/tests/test_riemann_solver.py 2>&1 | tail -1 )
git -C "$WT" checkout -q -- . ; rm -f "$WT/_seed_demo.py"
git -C /repo apply "$D/patch.diff" || exit 2
for c in $CHECKS; do
  ( cd /verif && ./check $c quick > /tmp/seed_check_$c.log 2>&1; echo "check $c rc=$? : $(grep -c '^VIOLATION' /tmp/seed_check_$c.log) violations; $(grep -m1 '^VIOLATION' /tmp/seed_check_$c.log | cut -c1-200)" )
done
git -C /repo checkout -- .
