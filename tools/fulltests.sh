#!/bin/sh
# Run (part of) the repository's test-suite against a scratch build of the
# working tree (the pinned baseline only runs the 55 tests that need no
# compiled extension).  usage: tools/fulltests.sh [pytest args/paths...]
set -e
cd "$(dirname "$0")/.."
B=$(PYTHONPATH=$PWD .venv/bin/python -c "from vf import common; print(common.ensure_build())")
D=/var/tmp/pysph-fulltest.$$
trap 'rm -rf "$D"' EXIT
rsync -a --exclude .git --exclude build --exclude docs /repo/ "$D"/
(cd "$B" && find pysph -name '*.so' | while read f; do cp "$f" "$D/$f"; done)
cd "$D"
/venv/bin/python -m pytest -q -p no:cacheprovider -x --timeout=900 "$@"
