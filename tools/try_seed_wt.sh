#!/bin/sh
# usage: tools/try_seed_wt.sh <ID> <dir-with-patch.diff> [check-id...]
# Like try_seed.sh but never touches /repo: the patch is applied in the scratch
# worktree /tmp/wt-<ID> and the checks run with VERIF_REPO pointing at it
# (usable while other checks run against /repo).
ID=$1; D=$(realpath "$2"); shift 2
CHECKS="${@:-$ID}"
WT=/tmp/wt-$ID
[ -d "$WT" ] || git -C /repo worktree add -q --detach "$WT" HEAD
git -C "$WT" checkout -q -- .
git -C "$WT" checkout -q --detach $(git -C /repo rev-parse HEAD)
git -C "$WT" clean -qfdx
git -C "$WT" apply "$D/patch.diff" || { echo "patch does not apply"; exit 2; }
for c in $CHECKS; do
  ( cd /verif && VERIF_REPO=$WT ./check $c quick > /tmp/seed_check_$c.log 2>&1; echo "check $c rc=$? : $(grep -c '^VIOLATION' /tmp/seed_check_$c.log) violations; $(grep -m1 '^VIOLATION' /tmp/seed_check_$c.log | cut -c1-260)" )
done
git -C "$WT" checkout -q -- .
